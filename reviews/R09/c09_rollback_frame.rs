//! C09: "rollback restores exactly one group's state and destroys nothing else".
//!
//! Storage-level checks against both backends through the public traits
//! (`MdkStorageProvider`, `GroupStorage`, OpenMLS `StorageProvider<1>`).
//!
//! `demo_*` tests FAIL on the unmodified tree (each one names the responsible code);
//! `hyp_*` tests are hypotheses that were tried and hold.
//!
//! demo_memory_rollback_steals_nostr_id_of_other_group
//!     crates/mdk-memory-storage/src/lib.rs:752-756 (restore_group_scoped_snapshot) puts the
//!     restored record into groups_by_nostr_id_cache without looking whether that nostr id
//!     now belongs to ANOTHER group; the other group's index entry is overwritten. SQLite
//!     refuses the same rollback (UNIQUE index on groups.nostr_group_id) and changes nothing.
//! demo_sqlite_rollback_reorders_own_leaf_nodes
//!     crates/mdk-sqlite-storage/src/lib.rs:934-950 reads the snapshot rows without ORDER BY,
//!     so they come back in primary-key order (table_name, row_key) where row_key is the JSON
//!     text of the AUTOINCREMENT id (lib.rs:697): "10" < "11" < "9". lib.rs:1155-1164
//!     re-inserts in that order with fresh ids, and own_leaf_nodes() (ORDER BY id) returns a
//!     different sequence than before the snapshot.
//! demo_memory_rollback_evicts_other_groups_secrets
//!     crates/mdk-memory-storage/src/lib.rs:764-768 re-puts the group's exporter secrets into
//!     the shared LRU; with a full cache every re-put evicts another group's entry.

use std::collections::BTreeSet;
use std::fmt::Debug;

use mdk_memory_storage::{MdkMemoryStorage, ValidationLimits};
use mdk_sqlite_storage::MdkSqliteStorage;
use mdk_storage_traits::groups::GroupStorage;
use mdk_storage_traits::groups::types::{Group, GroupExporterSecret, GroupState, SelfUpdateState};
use mdk_storage_traits::{GroupId, MdkStorageProvider, Secret};
use nostr::RelayUrl;
use openmls_traits::storage::{Entity, Key, StorageProvider, traits};
use serde::{Deserialize, Serialize};

#[derive(Debug, Clone, PartialEq, Eq, Serialize, Deserialize)]
struct Blob(String);
impl Entity<1> for Blob {}
impl Key<1> for Blob {}
impl traits::LeafNode<1> for Blob {}
impl traits::ProposalRef<1> for Blob {}
impl traits::QueuedProposal<1> for Blob {}
impl traits::HpkeKeyPair<1> for Blob {}
impl traits::GroupState<1> for Blob {}

#[derive(Debug, Clone, PartialEq, Eq, Serialize, Deserialize)]
struct Epoch(u64);
impl Key<1> for Epoch {}
impl traits::EpochKey<1> for Epoch {}

fn gid(n: u8) -> GroupId {
    GroupId::from_slice(&[n; 32])
}

fn group(n: u8, nostr: u8) -> Group {
    Group {
        mls_group_id: gid(n),
        nostr_group_id: [nostr; 32],
        name: format!("g{n}"),
        description: "d".into(),
        admin_pubkeys: BTreeSet::new(),
        last_message_id: None,
        last_message_at: None,
        last_message_processed_at: None,
        epoch: 0,
        state: GroupState::Active,
        image_hash: None,
        image_key: None,
        image_nonce: None,
        self_update_state: SelfUpdateState::Required,
    }
}

fn secret(n: u8, epoch: u64, v: u8) -> GroupExporterSecret {
    GroupExporterSecret {
        mls_group_id: gid(n),
        epoch,
        secret: Secret::new([v; 32]),
    }
}

/// Everything observable about the given groups.
fn dump<S>(s: &S, groups: &[u8], nostr_ids: &[u8], epochs: u64) -> Vec<String>
where
    S: MdkStorageProvider + StorageProvider<1>,
    <S as StorageProvider<1>>::Error: Debug,
{
    let mut out = Vec::new();
    let mut all: Vec<String> = s
        .all_groups()
        .unwrap()
        .into_iter()
        .filter(|g| groups.iter().any(|n| gid(*n) == g.mls_group_id))
        .map(|g| format!("{:?}", g))
        .collect();
    all.sort();
    out.push(format!("all_groups={all:?}"));
    for n in nostr_ids {
        out.push(format!(
            "by_nostr[{n}]={:?}",
            s.find_group_by_nostr_group_id(&[*n; 32])
                .unwrap()
                .map(|g| g.mls_group_id)
        ));
    }
    for n in groups {
        let g = gid(*n);
        out.push(format!(
            "group[{n}]={:?}",
            s.find_group_by_mls_group_id(&g).unwrap()
        ));
        out.push(format!("relays[{n}]={:?}", s.group_relays(&g).ok()));
        for e in 0..epochs {
            out.push(format!(
                "secret[{n},{e}]={:?}",
                s.get_group_exporter_secret(&g, e)
                    .ok()
                    .flatten()
                    .map(|x| x.secret.as_ref()[0])
            ));
            let kp: Vec<Blob> = s
                .encryption_epoch_key_pairs(g.inner(), &Epoch(e), 0)
                .unwrap();
            out.push(format!("epoch_kp[{n},{e}]={kp:?}"));
        }
        let leaves: Vec<Blob> = s.own_leaf_nodes(g.inner()).unwrap();
        out.push(format!("own_leaf_nodes[{n}]={leaves:?}"));
        let mut props: Vec<(Blob, Blob)> = s.queued_proposals(g.inner()).unwrap();
        props.sort_by(|a, b| a.0.0.cmp(&b.0.0));
        out.push(format!("proposals[{n}]={props:?}"));
        let st: Option<Blob> = s.group_state(g.inner()).unwrap();
        out.push(format!("group_state[{n}]={st:?}"));
        out.push(format!(
            "snapshots[{n}]={:?}",
            s.list_group_snapshots(&g)
                .unwrap()
                .into_iter()
                .map(|(n, _)| n)
                .collect::<BTreeSet<_>>()
        ));
    }
    out
}

fn diff(a: &[String], b: &[String]) -> Vec<String> {
    a.iter()
        .zip(b.iter())
        .filter(|(x, y)| x != y)
        .map(|(x, y)| format!("BEFORE {x}\n AFTER  {y}"))
        .collect()
}

fn sqlite() -> MdkSqliteStorage {
    MdkSqliteStorage::new_unencrypted(":memory:").unwrap()
}

// ---------------------------------------------------------------------------
// H-A: own leaf nodes keep their order across a rollback
// ---------------------------------------------------------------------------
fn own_leaf_order<S>(s: S)
where
    S: MdkStorageProvider + StorageProvider<1>,
    <S as StorageProvider<1>>::Error: Debug,
{
    s.save_group(group(1, 1)).unwrap();
    s.save_group(group(2, 2)).unwrap();
    // group 2 uses up the first ids
    for i in 0..8 {
        s.append_own_leaf_node(gid(2).inner(), &Blob(format!("other{i}")))
            .unwrap();
    }
    for i in 0..3 {
        s.append_own_leaf_node(gid(1).inner(), &Blob(format!("leaf{i}")))
            .unwrap();
    }
    let before = dump(&s, &[1, 2], &[1, 2], 2);
    s.create_group_snapshot(&gid(1), "s").unwrap();
    s.append_own_leaf_node(gid(1).inner(), &Blob("later".into()))
        .unwrap();
    s.rollback_group_to_snapshot(&gid(1), "s").unwrap();
    let after = dump(&s, &[1, 2], &[1, 2], 2);
    let d = diff(&before, &after);
    assert!(d.is_empty(), "state differs after rollback:\n{}", d.join("\n"));
}

#[test]
fn demo_sqlite_rollback_reorders_own_leaf_nodes() {
    own_leaf_order(sqlite());
}
#[test]
fn hyp_own_leaf_order_memory() {
    own_leaf_order(MdkMemoryStorage::default());
}

// ---------------------------------------------------------------------------
// H-B: rolling group 1 back to a nostr id that group 2 has taken since
// ---------------------------------------------------------------------------
fn nostr_id_reuse<S>(s: S)
where
    S: MdkStorageProvider + StorageProvider<1>,
    <S as StorageProvider<1>>::Error: Debug,
{
    s.save_group(group(1, 10)).unwrap();
    s.create_group_snapshot(&gid(1), "s").unwrap();
    // group 1 rotates to nostr id 11, group 2 appears under the released id 10
    s.save_group(group(1, 11)).unwrap();
    s.save_group(group(2, 10)).unwrap();
    let before = dump(&s, &[2], &[10], 1);
    let g1_before = dump(&s, &[1], &[11], 1);
    let r = s.rollback_group_to_snapshot(&gid(1), "s");
    let after = dump(&s, &[2], &[10], 1);
    let d = diff(&before, &after);
    // consequences, for the message
    let resave = s.save_group(group(2, 10));
    let holders: Vec<String> = s
        .all_groups()
        .unwrap()
        .into_iter()
        .filter(|g| g.nostr_group_id == [10; 32])
        .map(|g| g.name)
        .collect();
    assert!(
        d.is_empty(),
        "rollback of group 1 returned {r:?} and changed what belongs to group 2:\n{}\n\
         save_group(group 2) afterwards: {resave:?}\ngroups holding nostr id 10: {holders:?}",
        d.join("\n")
    );
    // a refused rollback must not have touched group 1 either
    if r.is_err() {
        let g1_after = dump(&s, &[1], &[11], 1);
        assert!(diff(&g1_before, &g1_after).is_empty());
    }
    resave.expect("group 2 still saveable");
}

#[test]
fn hyp_nostr_id_reuse_sqlite_refuses_and_changes_nothing() {
    nostr_id_reuse(sqlite());
}
#[test]
fn demo_memory_rollback_steals_nostr_id_of_other_group() {
    nostr_id_reuse(MdkMemoryStorage::default());
}

// ---------------------------------------------------------------------------
// H-C: rollback of group 1 evicts group 2's data from a full memory cache
// ---------------------------------------------------------------------------
#[test]
fn demo_memory_rollback_evicts_other_groups_secrets() {
    let s = MdkMemoryStorage::with_limits(ValidationLimits::default().with_cache_size(3));
    s.save_group(group(1, 1)).unwrap();
    s.save_group(group(2, 2)).unwrap();
    s.save_group_exporter_secret(secret(1, 0, 1)).unwrap();
    s.save_group_exporter_secret(secret(1, 1, 2)).unwrap();
    s.create_group_snapshot(&gid(1), "s").unwrap();
    s.save_group_exporter_secret(secret(2, 0, 3)).unwrap();
    s.save_group_exporter_secret(secret(2, 1, 4)).unwrap();
    let before = dump(&s, &[2], &[2], 2);
    s.rollback_group_to_snapshot(&gid(1), "s").unwrap();
    let after = dump(&s, &[2], &[2], 2);
    let d = diff(&before, &after);
    assert!(d.is_empty(), "group 2 changed:\n{}", d.join("\n"));
}

// ---------------------------------------------------------------------------
// H-D: nested snapshots, release, prune, re-take; frame over 3 groups
// ---------------------------------------------------------------------------
fn fill<S>(s: &S, n: u8, v: u8)
where
    S: MdkStorageProvider + StorageProvider<1>,
    <S as StorageProvider<1>>::Error: Debug,
{
    let mut g = group(n, n);
    g.epoch = v as u64;
    g.name = format!("g{n}v{v}");
    s.save_group(g).unwrap();
    s.replace_group_relays(
        &gid(n),
        BTreeSet::from([RelayUrl::parse(&format!("wss://r{v}.example.com")).unwrap()]),
    )
    .unwrap();
    s.save_group_exporter_secret(secret(n, v as u64, v)).unwrap();
    s.write_group_state(gid(n).inner(), &Blob(format!("state{v}")))
        .unwrap();
    s.append_own_leaf_node(gid(n).inner(), &Blob(format!("leaf{v}")))
        .unwrap();
    s.queue_proposal(
        gid(n).inner(),
        &Blob(format!("ref{v}")),
        &Blob(format!("prop{v}")),
    )
    .unwrap();
    s.write_encryption_epoch_key_pairs(
        gid(n).inner(),
        &Epoch(v as u64),
        0,
        &[Blob(format!("kp{v}"))],
    )
    .unwrap();
}

fn nested<S>(s: S)
where
    S: MdkStorageProvider + StorageProvider<1>,
    <S as StorageProvider<1>>::Error: Debug,
{
    for n in 1..=3 {
        fill(&s, n, 0);
    }
    let at0 = dump(&s, &[1, 2, 3], &[1, 2, 3], 4);
    s.create_group_snapshot(&gid(1), "a").unwrap();
    s.create_group_snapshot(&gid(2), "a").unwrap();
    fill(&s, 1, 1);
    fill(&s, 2, 1);
    let at1 = dump(&s, &[1, 2, 3], &[1, 2, 3], 4);
    s.create_group_snapshot(&gid(1), "b").unwrap();
    let at1b = dump(&s, &[1, 2, 3], &[1, 2, 3], 4);
    // taking a snapshot changes only the snapshot list of group 1
    assert_eq!(diff(&at1, &at1b).len(), 1, "{:?}", diff(&at1, &at1b));
    fill(&s, 1, 2);
    fill(&s, 3, 2);
    // re-take "b" for group 1 at v2
    s.create_group_snapshot(&gid(1), "b").unwrap();
    fill(&s, 1, 3);
    let g23_before = dump(&s, &[2, 3], &[2, 3], 4);
    s.rollback_group_to_snapshot(&gid(1), "b").unwrap();
    let g23_after = dump(&s, &[2, 3], &[2, 3], 4);
    assert!(diff(&g23_before, &g23_after).is_empty());
    let g1: Vec<String> = dump(&s, &[1], &[1], 4);
    assert!(
        g1.iter().any(|l| l.contains("state2")),
        "re-taken b is v2: {g1:#?}"
    );
    assert!(g1.iter().any(|l| l.contains("snapshots[1]={\"a\"}")), "{g1:#?}");
    // roll group 1 back to "a": must equal at0 for group 1 lines
    s.rollback_group_to_snapshot(&gid(1), "a").unwrap();
    let full = dump(&s, &[1, 2, 3], &[1, 2, 3], 4);
    let d: Vec<String> = diff(&at0, &full)
        .into_iter()
        .filter(|l| l.contains("[1") && !l.contains("all_groups="))
        .collect();
    // group 1 lines must be identical to at0 (groups 2 and 3 have moved on since)
    let d1: Vec<&String> = d.iter().collect();
    assert!(d1.is_empty(), "group 1 not exactly restored: {d1:#?}");
    // prune / release change nothing live
    let before = dump(&s, &[1, 2, 3], &[1, 2, 3], 4);
    s.release_group_snapshot(&gid(3), "nope").unwrap();
    assert_eq!(s.prune_expired_snapshots(0).unwrap(), 0);
    let after = dump(&s, &[1, 2, 3], &[1, 2, 3], 4);
    assert!(diff(&before, &after).is_empty());
    let n = s.prune_expired_snapshots(u64::MAX >> 2).unwrap();
    assert_eq!(n, 1, "only 2/a is left");
    let after = dump(&s, &[1, 2, 3], &[1, 2, 3], 4);
    assert_eq!(diff(&before, &after).len(), 1);
}

#[test]
fn hyp_nested_retake_release_prune_sqlite() {
    nested(sqlite());
}
#[test]
fn hyp_nested_retake_release_prune_memory() {
    nested(MdkMemoryStorage::default());
}

// ---------------------------------------------------------------------------
// H-E: sqlite on disk, restart between snapshot and rollback
// ---------------------------------------------------------------------------
#[test]
fn hyp_restart_between_snapshot_and_rollback_sqlite() {
    let dir = tempfile::tempdir().unwrap();
    let path = dir.path().join("db.sqlite");
    let s = MdkSqliteStorage::new_unencrypted(&path).unwrap();
    for n in 1..=2 {
        fill(&s, n, 0);
    }
    let at0 = dump(&s, &[1], &[1], 3);
    s.create_group_snapshot(&gid(1), "a").unwrap();
    fill(&s, 1, 1);
    fill(&s, 2, 1);
    let g2 = dump(&s, &[2], &[2], 3);
    drop(s);
    let s = MdkSqliteStorage::new_unencrypted(&path).unwrap();
    s.rollback_group_to_snapshot(&gid(1), "a").unwrap();
    let mut now = dump(&s, &[1], &[1], 3);
    // the consumed snapshot is gone, everything else is as at v0
    let mut exp = at0.clone();
    exp.retain(|l| !l.starts_with("snapshots"));
    now.retain(|l| !l.starts_with("snapshots"));
    assert!(diff(&exp, &now).is_empty(), "{:#?}", diff(&exp, &now));
    assert!(diff(&g2, &dump(&s, &[2], &[2], 3)).is_empty());
    assert!(s.list_group_snapshots(&gid(1)).unwrap().is_empty());
}
