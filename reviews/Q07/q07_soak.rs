//! Q07 / C07: a history with a commit race; every handled event is offered again at every
//! later point, to every client, and the observable state is compared.
mod q07_common;
use mdk_core::messages::MessageProcessingResult;
use mdk_core::prelude::NostrGroupDataUpdate;
use nostr::Event;
use mdk_storage_traits::MdkStorageProvider;
use q07_common::*;

fn auto_commit<S: MdkStorageProvider>(c: &Client<S>, p: &Event) -> Event {
    match c.mdk.process_message(p).expect("proposal") {
        MessageProcessingResult::Proposal(u) => u.evolution_event,
        other => panic!("expected auto-commit, got {other:?}"),
    }
}

fn maybe_restart<S: MdkStorageProvider>(
    restart: &impl Fn(&mut Client<S>),
    c: &mut Client<S>,
    stage: &str,
) {
    if ONLY_STAGE.with(|s| s.borrow().clone()) == stage {
        restart(c);
    }
}

thread_local! { static ONLY_STAGE: std::cell::RefCell<String> = std::cell::RefCell::new(String::new()); }

fn replay_all<S: MdkStorageProvider>(
    who: &Client<S>,
    gid: &mdk_core::GroupId,
    handled: &[(&str, Event)],
    stage: &str,
    problems: &mut Vec<String>,
) {
    // Only one stage replays per run: a first repeat rewrites the dedup record to Failed
    // (known), which would shield every later stage from the repeat.
    let only = ONLY_STAGE.with(|s| s.borrow().clone());
    if only != stage {
        return;
    }
    eprintln!("--- replay at {} ({stage}) epoch {}", who.name, epoch_of(who, gid));
    for (label, ev) in handled {
        let l = format!("{stage}: {label}");
        problems.extend(redeliver_and_check(who, gid, ev, 2, &l));
    }
}

const STAGES: &[&str] = &[
    "epoch1",
    "p queued",
    "p auto-commit pending",
    "on D branch",
    "after rollback",
    "after loser seen",
    "epoch 3",
    "bob evicted",
    "epoch 4",
];

#[test]
fn soak_race_history_each_stage() {
    let mut all = Vec::new();
    for st in STAGES {
        eprintln!("================ stage {st}");
        ONLY_STAGE.with(|s| *s.borrow_mut() = st.to_string());
        all.extend(soak_race_history(mem_client, |_c| {}));
    }
    report(all);
}

/// Same history on SQLite; every client is restarted (new MDK on the same file) right before
/// the replay of the chosen stage.
#[test]
fn soak_race_history_each_stage_sqlite_restart() {
    let mut all = Vec::new();
    for st in STAGES {
        eprintln!("================ sqlite stage {st}");
        ONLY_STAGE.with(|s| *s.borrow_mut() = st.to_string());
        let dir = tempfile::tempdir().unwrap();
        let path = dir.path().to_path_buf();
        let p2 = path.clone();
        all.extend(soak_race_history(
            move |name| Client {
                name,
                keys: nostr::Keys::generate(),
                mdk: mdk_core::MDK::new(
                    mdk_sqlite_storage::MdkSqliteStorage::new_unencrypted(
                        path.join(format!("{name}.db")),
                    )
                    .unwrap(),
                ),
            },
            move |c| {
                c.mdk = mdk_core::MDK::new(
                    mdk_sqlite_storage::MdkSqliteStorage::new_unencrypted(
                        p2.join(format!("{}.db", c.name)),
                    )
                    .unwrap(),
                );
            },
        ));
    }
    report(all);
}

fn soak_race_history<S: MdkStorageProvider>(
    mk: impl Fn(&'static str) -> Client<S>,
    restart: impl Fn(&mut Client<S>),
) -> Vec<String> {
    let mut alice = mk("alice");
    let mut dan = mk("dan");
    let mut bob = mk("bob");
    let carol = mk("carol");
    let admins = vec![alice.keys.public_key(), dan.keys.public_key()];
    let gid = make_group(&alice, &[&dan, &bob, &carol], admins);
    let mut problems = Vec::new();

    // epoch 1 traffic
    let m1 = send(&alice, &gid, "m1 (alice, epoch 1)");
    let m1late = send(&alice, &gid, "m1late (alice, epoch 1, arrives late)");
    let b1 = send(&bob, &gid, "b1 (bob, epoch 1)");
    for c in [&dan, &bob, &carol, &alice] {
        deliver(c, &m1);
    }
    for c in [&dan, &alice, &carol, &bob] {
        deliver(c, &b1);
    }
    let mut bob_handled: Vec<(&str, Event)> = vec![("m1", m1.clone()), ("b1 own echo", b1.clone())];
    let mut dan_handled: Vec<(&str, Event)> = vec![("m1", m1.clone()), ("b1", b1.clone())];
    let mut alice_handled: Vec<(&str, Event)> = vec![("m1 own echo", m1.clone()), ("b1", b1.clone())];
    maybe_restart(&restart, &mut bob, "epoch1");
    replay_all(&bob, &gid, &bob_handled, "epoch1", &mut problems);
    maybe_restart(&restart, &mut alice, "epoch1");
    replay_all(&alice, &gid, &alice_handled, "epoch1", &mut problems);

    // Carol leaves: bob queues, both admins auto-commit (alice first => A is the better one)
    let p = carol.mdk.leave_group(&gid).unwrap().evolution_event;
    assert_eq!(deliver(&bob, &p), "Ok(PendingProposal)");
    let a = auto_commit(&alice, &p);
    sleep_1s();
    let d = auto_commit(&dan, &p);
    assert!(a.created_at < d.created_at);
    bob_handled.push(("p leave proposal", p.clone()));
    dan_handled.push(("p leave proposal", p.clone()));
    alice_handled.push(("p leave proposal", p.clone()));
    maybe_restart(&restart, &mut bob, "p queued");
    replay_all(&bob, &gid, &bob_handled, "p queued", &mut problems);
    maybe_restart(&restart, &mut dan, "p auto-commit pending");
    replay_all(&dan, &gid, &dan_handled, "p auto-commit pending", &mut problems);
    maybe_restart(&restart, &mut alice, "p auto-commit pending");
    replay_all(&alice, &gid, &alice_handled, "p auto-commit pending", &mut problems);

    // Dan's commit D reaches dan (echo, merges the pending commit) and bob first
    assert_eq!(deliver(&dan, &d), "Ok(Commit)");
    assert_eq!(deliver(&bob, &d), "Ok(Commit)");
    let m2 = send(&dan, &gid, "m2 (dan, epoch 2 on D branch)");
    deliver(&dan, &m2);
    deliver(&bob, &m2);
    let b2 = send(&bob, &gid, "b2 (bob, epoch 2 on D branch)");
    deliver(&bob, &b2);
    deliver(&dan, &b2);
    deliver(&bob, &m1late);
    deliver(&dan, &m1late);
    bob_handled.extend([
        ("D commit (will lose)", d.clone()),
        ("m2 on D branch", m2.clone()),
        ("b2 own on D branch", b2.clone()),
        ("m1late", m1late.clone()),
    ]);
    dan_handled.extend([
        ("D own commit (will lose)", d.clone()),
        ("m2 own on D branch", m2.clone()),
        ("b2 on D branch", b2.clone()),
        ("m1late", m1late.clone()),
    ]);
    maybe_restart(&restart, &mut bob, "on D branch");
    replay_all(&bob, &gid, &bob_handled, "on D branch", &mut problems);
    maybe_restart(&restart, &mut dan, "on D branch");
    replay_all(&dan, &gid, &dan_handled, "on D branch", &mut problems);

    // Alice's A (earlier) arrives: alice merges through the echo, bob and dan roll back
    assert_eq!(deliver(&alice, &a), "Ok(Commit)");
    if deliver(&bob, &a) != "Ok(Commit)" || deliver(&dan, &a) != "Ok(Commit)" {
        // Known: race-resolution state does not survive a restart. The history cannot go on.
        eprintln!("(restart before the better commit: race lost, known; history ends here)");
        return problems;
    }
    assert_eq!(fingerprint(&bob, &gid).lines().find(|l| l.starts_with("mls.epoch_auth")),
               fingerprint(&alice, &gid).lines().find(|l| l.starts_with("mls.epoch_auth")));
    deliver(&alice, &m1late);
    let m3 = send(&alice, &gid, "m3 (alice, epoch 2 on A branch)");
    for c in [&alice, &bob, &dan] {
        deliver(c, &m3);
    }
    bob_handled.extend([("A commit (winner)", a.clone()), ("m3 on A branch", m3.clone())]);
    dan_handled.extend([("A commit (winner)", a.clone()), ("m3 on A branch", m3.clone())]);
    alice_handled.extend([
        ("A own commit (winner)", a.clone()),
        ("m1late own", m1late.clone()),
        ("m3 own", m3.clone()),
    ]);
    eprintln!("bob after rollback:\n{}", fingerprint(&bob, &gid));
    maybe_restart(&restart, &mut bob, "after rollback");
    replay_all(&bob, &gid, &bob_handled, "after rollback", &mut problems);
    maybe_restart(&restart, &mut dan, "after rollback");
    replay_all(&dan, &gid, &dan_handled, "after rollback", &mut problems);
    maybe_restart(&restart, &mut alice, "after rollback");
    replay_all(&alice, &gid, &alice_handled, "after rollback", &mut problems);
    // the loser arrives at alice (first time), then everything again
    deliver(&alice, &d);
    deliver(&alice, &m2);
    alice_handled.extend([("D loser", d.clone()), ("m2 on D branch", m2.clone())]);
    maybe_restart(&restart, &mut alice, "after loser seen");
    replay_all(&alice, &gid, &alice_handled, "after loser seen", &mut problems);

    // next epoch: alice renames the group
    let u = alice
        .mdk
        .update_group_data(&gid, NostrGroupDataUpdate::new().name("renamed"))
        .unwrap()
        .evolution_event;
    alice.mdk.merge_pending_commit(&gid).unwrap();
    assert_eq!(deliver(&bob, &u), "Ok(Commit)");
    assert_eq!(deliver(&dan, &u), "Ok(Commit)");
    deliver(&alice, &u);
    bob_handled.push(("U rename commit", u.clone()));
    dan_handled.push(("U rename commit", u.clone()));
    alice_handled.push(("U own rename commit", u.clone()));
    maybe_restart(&restart, &mut bob, "epoch 3");
    replay_all(&bob, &gid, &bob_handled, "epoch 3", &mut problems);
    maybe_restart(&restart, &mut dan, "epoch 3");
    replay_all(&dan, &gid, &dan_handled, "epoch 3", &mut problems);
    maybe_restart(&restart, &mut alice, "epoch 3");
    replay_all(&alice, &gid, &alice_handled, "epoch 3", &mut problems);

    // bob is removed
    let r = alice
        .mdk
        .remove_members(&gid, &[bob.keys.public_key()])
        .unwrap()
        .evolution_event;
    alice.mdk.merge_pending_commit(&gid).unwrap();
    assert_eq!(deliver(&bob, &r), "Ok(Commit)");
    assert_eq!(deliver(&dan, &r), "Ok(Commit)");
    bob_handled.push(("R commit removing bob", r.clone()));
    dan_handled.push(("R commit removing bob", r.clone()));
    maybe_restart(&restart, &mut bob, "bob evicted");
    replay_all(&bob, &gid, &bob_handled, "bob evicted", &mut problems);
    maybe_restart(&restart, &mut dan, "epoch 4");
    replay_all(&dan, &gid, &dan_handled, "epoch 4", &mut problems);

    problems
}
