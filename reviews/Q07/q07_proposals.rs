//! Q07 / C07: a leave proposal delivered again.
mod q07_common;
use q07_common::*;

/// H1: non-admin receiver, same epoch, many repeats, and re-wrapped copy.
#[test]
fn h1_leave_proposal_again_to_non_admin() {
    let alice = mem_client("alice");
    let bob = mem_client("bob");
    let carol = mem_client("carol");
    let gid = make_group(&alice, &[&bob, &carol], vec![alice.keys.public_key()]);

    let p = carol.mdk.leave_group(&gid).expect("leave").evolution_event;
    let r = deliver(&bob, &p);
    assert_eq!(r, "Ok(PendingProposal)");
    let f = fingerprint(&bob, &gid);
    assert!(f.contains("pending.removals=[PublicKey"), "queued: {f}");

    let mut problems = redeliver_and_check(&bob, &gid, &p, 3, "H1 same event");
    let p2 = rewrap(&p, p.created_at.as_secs() - 5);
    problems.extend(redeliver_and_check(&bob, &gid, &p2, 2, "H1 rewrap"));
    report(problems);
}

/// H2a: admin receiver auto-commits; the proposal comes again while the auto-commit is pending.
#[test]
fn h2a_leave_proposal_again_to_admin_pending() {
    let alice = mem_client("alice");
    let bob = mem_client("bob");
    let carol = mem_client("carol");
    let gid = make_group(&alice, &[&bob, &carol], vec![alice.keys.public_key()]);

    let p = carol.mdk.leave_group(&gid).expect("leave").evolution_event;
    let r = deliver(&alice, &p);
    assert!(r.starts_with("Ok(Proposal->commit"), "{r}");
    let mut problems = redeliver_and_check(&alice, &gid, &p, 3, "H2a pending");
    let p2 = rewrap(&p, p.created_at.as_secs() - 5);
    problems.extend(redeliver_and_check(&alice, &gid, &p2, 2, "H2a rewrap"));
    report(problems);
}

/// H2b: ... after the auto-commit was cleared (publish failed).
#[test]
fn h2b_leave_proposal_again_to_admin_after_clear() {
    let alice = mem_client("alice");
    let bob = mem_client("bob");
    let carol = mem_client("carol");
    let gid = make_group(&alice, &[&bob, &carol], vec![alice.keys.public_key()]);

    let p = carol.mdk.leave_group(&gid).expect("leave").evolution_event;
    let r = deliver(&alice, &p);
    assert!(r.starts_with("Ok(Proposal->commit"), "{r}");
    alice.mdk.clear_pending_commit(&gid).expect("clear");
    let mut problems = redeliver_and_check(&alice, &gid, &p, 3, "H2b cleared");
    let p2 = rewrap(&p, p.created_at.as_secs() - 5);
    problems.extend(redeliver_and_check(&alice, &gid, &p2, 2, "H2b rewrap"));
    report(problems);
}

/// H2c: ... after the auto-commit was merged; also the auto-commit's own echo, repeatedly.
#[test]
fn h2c_leave_proposal_again_to_admin_after_merge() {
    let alice = mem_client("alice");
    let bob = mem_client("bob");
    let carol = mem_client("carol");
    let gid = make_group(&alice, &[&bob, &carol], vec![alice.keys.public_key()]);

    let p = carol.mdk.leave_group(&gid).expect("leave").evolution_event;
    let c = match alice.mdk.process_message(&p).expect("p") {
        mdk_core::messages::MessageProcessingResult::Proposal(u) => u.evolution_event,
        other => panic!("unexpected {other:?}"),
    };
    alice.mdk.merge_pending_commit(&gid).expect("merge");
    assert_eq!(alice.mdk.get_members(&gid).unwrap().len(), 2);

    let mut problems = redeliver_and_check(&alice, &gid, &p, 3, "H2c merged: proposal");
    problems.extend(redeliver_and_check(&alice, &gid, &c, 3, "H2c merged: own auto-commit echo"));
    let p2 = rewrap(&p, p.created_at.as_secs() - 5);
    problems.extend(redeliver_and_check(&alice, &gid, &p2, 2, "H2c rewrap proposal"));

    // Bob: proposal queued, then the commit covering it applied, then both again.
    assert_eq!(deliver(&bob, &p), "Ok(PendingProposal)");
    assert_eq!(deliver(&bob, &c), "Ok(Commit)");
    assert_eq!(bob.mdk.get_members(&gid).unwrap().len(), 2);
    problems.extend(redeliver_and_check(&bob, &gid, &p, 3, "H3 bob: proposal after covering commit"));
    problems.extend(redeliver_and_check(&bob, &gid, &c, 3, "H3 bob: applied commit"));
    problems.extend(redeliver_and_check(&bob, &gid, &p2, 2, "H3 bob: rewrap proposal"));

    // Carol (the leaver) is evicted by c: c again, p again, a message again.
    let m = send(&alice, &gid, "after leave");
    assert_eq!(deliver(&carol, &c), "Ok(Commit)");
    problems.extend(redeliver_and_check(&carol, &gid, &c, 3, "H8 carol: evicting commit"));
    problems.extend(redeliver_and_check(&carol, &gid, &p, 2, "H8 carol: own proposal echo"));
    problems.extend(redeliver_and_check(&carol, &gid, &m, 2, "H8 carol: later message"));
    report(problems);
}

/// H2d: admin holds a pending commit of its own when the proposal arrives (kept pending),
/// proposal again; then the own commit is cleared and the proposal comes again.
#[test]
fn h2d_leave_proposal_again_to_admin_with_own_pending_commit() {
    let alice = mem_client("alice");
    let bob = mem_client("bob");
    let carol = mem_client("carol");
    let gid = make_group(&alice, &[&bob, &carol], vec![alice.keys.public_key()]);

    let _own = alice
        .mdk
        .update_group_data(&gid, mdk_core::prelude::NostrGroupDataUpdate::new().name("x"))
        .expect("update");
    let p = carol.mdk.leave_group(&gid).expect("leave").evolution_event;
    let r = deliver(&alice, &p);
    eprintln!("first: {r}");
    let mut problems = redeliver_and_check(&alice, &gid, &p, 3, "H2d own pending");
    alice.mdk.clear_pending_commit(&gid).expect("clear");
    problems.extend(redeliver_and_check(&alice, &gid, &p, 3, "H2d own pending cleared"));
    report(problems);
}
