//! Q07 / C07: further single-shot probes (the first repeat happens at the interesting point).
mod q07_common;
use mdk_core::MdkConfig;
use mdk_core::messages::MessageProcessingResult;
use mdk_core::prelude::NostrGroupDataUpdate;
use q07_common::*;

/// H9: a late epoch-1 message handled after the commit; a better commit then rolls the client
/// back to epoch 1 (restoring the epoch-1 ratchets); the message comes again - same event and
/// re-wrapped - and so does the invalidated losing-branch message.
#[test]
fn h9_late_message_again_after_rollback_restored_the_ratchet() {
    let alice = mem_client("alice");
    let dan = mem_client("dan");
    let bob = mem_client("bob");
    let gid = make_group(
        &alice,
        &[&dan, &bob],
        vec![alice.keys.public_key(), dan.keys.public_key()],
    );
    let late = send(&alice, &gid, "late epoch-1 message");
    let a = alice
        .mdk
        .update_group_data(&gid, NostrGroupDataUpdate::new().name("A"))
        .unwrap()
        .evolution_event;
    sleep_1s();
    let d = dan
        .mdk
        .update_group_data(&gid, NostrGroupDataUpdate::new().name("D"))
        .unwrap()
        .evolution_event;
    dan.mdk.merge_pending_commit(&gid).unwrap();
    alice.mdk.merge_pending_commit(&gid).unwrap();
    let on_d = send(&dan, &gid, "epoch 2 on D branch");
    let on_a = send(&alice, &gid, "epoch 2 on A branch");

    assert_eq!(deliver(&bob, &d), "Ok(Commit)");
    assert!(deliver(&bob, &late).starts_with("Ok(App"));
    assert!(deliver(&bob, &on_d).starts_with("Ok(App"));
    assert_eq!(deliver(&bob, &a), "Ok(Commit)"); // rollback + A
    assert!(deliver(&bob, &on_a).starts_with("Ok(App"));
    eprintln!("{}", fingerprint(&bob, &gid));

    let mut problems = Vec::new();
    let late2 = rewrap(&late, late.created_at.as_secs() + 1);
    problems.extend(redeliver_and_check(&bob, &gid, &late2, 2, "H9 late message, re-wrapped"));
    problems.extend(redeliver_and_check(&bob, &gid, &late, 3, "H9 late message, same event"));
    let on_d2 = rewrap(&on_d, on_d.created_at.as_secs() + 1);
    problems.extend(redeliver_and_check(&bob, &gid, &on_d, 2, "H9 losing-branch message"));
    problems.extend(redeliver_and_check(&bob, &gid, &on_d2, 2, "H9 losing-branch message re-wrapped"));
    let d2 = rewrap(&d, d.created_at.as_secs() + 5);
    problems.extend(redeliver_and_check(&bob, &gid, &d, 2, "H9 loser commit"));
    problems.extend(redeliver_and_check(&bob, &gid, &d2, 2, "H9 loser commit re-wrapped (later date)"));
    let a2 = rewrap(&a, a.created_at.as_secs() + 5);
    problems.extend(redeliver_and_check(&bob, &gid, &a2, 2, "H9 winner commit re-wrapped (later date)"));
    problems.extend(redeliver_and_check(&bob, &gid, &a, 2, "H9 winner commit"));
    report(problems);
}

/// H10: own message: echo, echo again, re-wrapped echo, echo after epoch change.
#[test]
fn h10_own_message_echo_again() {
    let alice = mem_client("alice");
    let bob = mem_client("bob");
    let gid = make_group(&alice, &[&bob], vec![alice.keys.public_key()]);
    let own = send(&bob, &gid, "bob's own");
    assert!(deliver(&bob, &own).starts_with("Ok(App"));
    let mut problems = redeliver_and_check(&bob, &gid, &own, 2, "H10 own echo same epoch");
    let own2 = rewrap(&own, own.created_at.as_secs() + 1);
    problems.extend(redeliver_and_check(&bob, &gid, &own2, 2, "H10 own echo re-wrapped"));

    let own_b = send(&bob, &gid, "bob's own, echo only after the epoch change");
    let u = alice
        .mdk
        .update_group_data(&gid, NostrGroupDataUpdate::new().name("n"))
        .unwrap()
        .evolution_event;
    alice.mdk.merge_pending_commit(&gid).unwrap();
    assert_eq!(deliver(&bob, &u), "Ok(Commit)");
    assert!(deliver(&bob, &own_b).starts_with("Ok(App"));
    problems.extend(redeliver_and_check(&bob, &gid, &own_b, 2, "H10 own echo next epoch"));
    let own_c = send(&bob, &gid, "third");
    assert!(deliver(&bob, &own_c).starts_with("Ok(App"));
    problems.extend(redeliver_and_check(&bob, &gid, &own, 2, "H10 first own echo, much later"));
    report(problems);
}

/// H12: the commit that added a member, delivered to that member (it joined by welcome).
#[test]
fn h12_add_commit_to_the_member_it_added() {
    let alice = mem_client("alice");
    let dan = mem_client("dan");
    let bob = mem_client("bob");
    let dave = mem_client("dave");
    let gid = make_group(
        &alice,
        &[&dan, &bob],
        vec![alice.keys.public_key(), dan.keys.public_key()],
    );
    let add = alice
        .mdk
        .add_members(&gid, &[key_package_event(&dave)])
        .unwrap();
    alice.mdk.merge_pending_commit(&gid).unwrap();
    join(&dave, &add.welcome_rumors.as_ref().unwrap()[0]);
    deliver(&bob, &add.evolution_event);
    deliver(&dan, &add.evolution_event);
    let mut problems =
        redeliver_and_check(&dave, &gid, &add.evolution_event, 3, "H12 add commit at dave");

    // a race at dave, so that the failed record turns Retryable, then the add commit again
    let a = alice
        .mdk
        .update_group_data(&gid, NostrGroupDataUpdate::new().name("A"))
        .unwrap()
        .evolution_event;
    sleep_1s();
    let d = dan
        .mdk
        .update_group_data(&gid, NostrGroupDataUpdate::new().name("D"))
        .unwrap()
        .evolution_event;
    assert_eq!(deliver(&dave, &d), "Ok(Commit)");
    assert_eq!(deliver(&dave, &a), "Ok(Commit)");
    eprintln!("add commit record at dave: {}", record_state(&dave, &add.evolution_event));
    problems.extend(redeliver_and_check(
        &dave,
        &gid,
        &add.evolution_event,
        3,
        "H12 add commit at dave after a rollback (Retryable)",
    ));
    report(problems);
}

/// H5b: own commit merged with merge_pending_commit, echo again later, also re-wrapped earlier.
#[test]
fn h5b_own_commit_api_merged_echo_again() {
    let alice = mem_client("alice");
    let bob = mem_client("bob");
    let gid = make_group(&alice, &[&bob], vec![alice.keys.public_key()]);
    let c = alice
        .mdk
        .update_group_data(&gid, NostrGroupDataUpdate::new().name("two"))
        .unwrap()
        .evolution_event;
    alice.mdk.merge_pending_commit(&gid).unwrap();
    let m = send(&alice, &gid, "x");
    deliver(&alice, &m);
    // a pending commit of her own while the old echo comes round
    let _pending = alice
        .mdk
        .update_group_data(&gid, NostrGroupDataUpdate::new().name("three"))
        .unwrap();
    let mut problems = redeliver_and_check(&alice, &gid, &c, 3, "H5b own commit echo with another pending");
    let c2 = rewrap(&c, c.created_at.as_secs() - 10);
    problems.extend(redeliver_and_check(&alice, &gid, &c2, 2, "H5b own commit re-wrapped earlier (api-merged)"));
    report(problems);
}

/// H-cfg: small windows (no past epochs, tolerance 1, retention 1): messages and commits again.
#[test]
fn hcfg_small_windows() {
    let cfg = MdkConfig {
        out_of_order_tolerance: 1,
        max_past_epochs: 1,
        epoch_snapshot_retention: 1,
        ..Default::default()
    };
    let alice = mem_client_cfg("alice", cfg.clone());
    let bob = mem_client_cfg("bob", cfg.clone());
    let gid = make_group(&alice, &[&bob], vec![alice.keys.public_key()]);
    let msgs: Vec<_> = (0..5).map(|i| send(&alice, &gid, &format!("m{i}"))).collect();
    for m in &msgs {
        assert!(deliver(&bob, m).starts_with("Ok(App"));
    }
    let mut problems = Vec::new();
    for (i, m) in msgs.iter().enumerate() {
        problems.extend(redeliver_and_check(&bob, &gid, m, 2, &format!("Hcfg m{i}")));
    }
    let mut commits = Vec::new();
    for i in 0..3 {
        let u = alice
            .mdk
            .update_group_data(&gid, NostrGroupDataUpdate::new().name(format!("n{i}")))
            .unwrap()
            .evolution_event;
        alice.mdk.merge_pending_commit(&gid).unwrap();
        assert_eq!(deliver(&bob, &u), "Ok(Commit)");
        commits.push(u);
    }
    for (i, u) in commits.iter().enumerate() {
        problems.extend(redeliver_and_check(&bob, &gid, u, 2, &format!("Hcfg commit {i}")));
    }
    let _ = MessageProcessingResult::PreviouslyFailed;
    report(problems);
}
