//! Shared harness for the Q07 (C07: re-delivery changes nothing) probes.
#![allow(dead_code)]

use std::fmt::Write as _;

use mdk_core::messages::MessageProcessingResult;
use mdk_core::prelude::*;
use mdk_core::{Error, MDK, MdkConfig};
use mdk_memory_storage::MdkMemoryStorage;
use mdk_storage_traits::{GroupId, MdkStorageProvider};
use nostr::{Event, EventBuilder, EventId, Keys, Kind, PublicKey, RelayUrl, Timestamp, UnsignedEvent};
use openmls_traits::OpenMlsProvider;

pub struct Client<S: MdkStorageProvider> {
    pub name: &'static str,
    pub keys: Keys,
    pub mdk: MDK<S>,
}

pub type MemClient = Client<MdkMemoryStorage>;

pub fn mem_client(name: &'static str) -> MemClient {
    Client {
        name,
        keys: Keys::generate(),
        mdk: MDK::new(MdkMemoryStorage::default()),
    }
}

pub fn mem_client_cfg(name: &'static str, config: MdkConfig) -> MemClient {
    Client {
        name,
        keys: Keys::generate(),
        mdk: MDK::builder(MdkMemoryStorage::default())
            .with_config(config)
            .build(),
    }
}

pub fn key_package_event<S: MdkStorageProvider>(c: &Client<S>) -> Event {
    let relays = vec![RelayUrl::parse("wss://test.relay").unwrap()];
    let (kp, tags, _r) = c
        .mdk
        .create_key_package_for_event(&c.keys.public_key(), relays)
        .expect("key package");
    EventBuilder::new(Kind::MlsKeyPackage, kp)
        .tags(tags)
        .sign_with_keys(&c.keys)
        .expect("sign kp")
}

pub fn config_data(admins: Vec<PublicKey>) -> NostrGroupConfigData {
    NostrGroupConfigData::new(
        "Q07".to_string(),
        "q07 group".to_string(),
        None,
        None,
        None,
        vec![RelayUrl::parse("wss://test.relay").unwrap()],
        admins,
    )
}

/// `creator` creates a group containing `others`; everybody joins. Returns the group id.
pub fn make_group<S: MdkStorageProvider>(
    creator: &Client<S>,
    others: &[&Client<S>],
    admins: Vec<PublicKey>,
) -> GroupId {
    let kps: Vec<Event> = others.iter().map(|c| key_package_event(c)).collect();
    let res = creator
        .mdk
        .create_group(&creator.keys.public_key(), kps, config_data(admins))
        .expect("create group");
    let gid = res.group.mls_group_id.clone();
    creator.mdk.merge_pending_commit(&gid).expect("merge create");
    for (i, c) in others.iter().enumerate() {
        join(c, &res.welcome_rumors[i]);
    }
    gid
}

pub fn join<S: MdkStorageProvider>(c: &Client<S>, rumor: &UnsignedEvent) {
    let mut id = [0u8; 32];
    id.copy_from_slice(&Keys::generate().public_key().to_bytes());
    let w = c
        .mdk
        .process_welcome(&EventId::from_byte_array(id), rumor)
        .expect("process welcome");
    c.mdk.accept_welcome(&w).expect("accept welcome");
}

pub fn rumor(keys: &Keys, content: &str) -> UnsignedEvent {
    EventBuilder::new(Kind::TextNote, content).build(keys.public_key())
}

pub fn rumor_at(keys: &Keys, content: &str, ts: u64) -> UnsignedEvent {
    EventBuilder::new(Kind::TextNote, content)
        .custom_created_at(Timestamp::from(ts))
        .build(keys.public_key())
}

pub fn send<S: MdkStorageProvider>(c: &Client<S>, gid: &GroupId, content: &str) -> Event {
    c.mdk
        .create_message(gid, rumor(&c.keys, content))
        .expect("create message")
}

/// A new Nostr wrapper (fresh ephemeral key, chosen timestamp) around the very same payload.
pub fn rewrap(ev: &Event, ts: u64) -> Event {
    EventBuilder::new(ev.kind, ev.content.clone())
        .tags(ev.tags.clone())
        .custom_created_at(Timestamp::from(ts))
        .sign_with_keys(&Keys::generate())
        .expect("rewrap")
}

pub fn res_str(r: &Result<MessageProcessingResult, Error>) -> String {
    match r {
        Ok(MessageProcessingResult::ApplicationMessage(m)) => {
            format!("Ok(App {} {:?})", &m.id.to_hex()[..8], m.state)
        }
        Ok(MessageProcessingResult::Proposal(u)) => {
            format!("Ok(Proposal->commit {})", &u.evolution_event.id.to_hex()[..8])
        }
        Ok(MessageProcessingResult::PendingProposal { .. }) => "Ok(PendingProposal)".into(),
        Ok(MessageProcessingResult::IgnoredProposal { reason, .. }) => {
            format!("Ok(IgnoredProposal {reason})")
        }
        Ok(MessageProcessingResult::ExternalJoinProposal { .. }) => "Ok(ExtJoin)".into(),
        Ok(MessageProcessingResult::Commit { .. }) => "Ok(Commit)".into(),
        Ok(MessageProcessingResult::Unprocessable { .. }) => "Ok(Unprocessable)".into(),
        Ok(MessageProcessingResult::PreviouslyFailed) => "Ok(PreviouslyFailed)".into(),
        Err(e) => format!("Err({e})"),
    }
}

pub fn deliver<S: MdkStorageProvider>(c: &Client<S>, ev: &Event) -> String {
    let r = c.mdk.process_message(ev);
    let s = res_str(&r);
    eprintln!("   [{}] <- {} : {}", c.name, &ev.id.to_hex()[..8], s);
    s
}

pub fn record_state<S: MdkStorageProvider>(c: &Client<S>, ev: &Event) -> String {
    match c
        .mdk
        .provider
        .storage()
        .find_processed_message_by_event_id(&ev.id)
        .unwrap()
    {
        Some(r) => format!("{:?}/epoch={:?}", r.state, r.epoch),
        None => "none".into(),
    }
}

/// Everything the property lists, as text (one item per line so that diffs read well).
pub fn fingerprint<S: MdkStorageProvider>(c: &Client<S>, gid: &GroupId) -> String {
    let mut out = String::new();
    let g = c.mdk.get_group(gid).unwrap().expect("group");
    writeln!(out, "group.epoch={}", g.epoch).unwrap();
    writeln!(out, "group.state={:?}", g.state).unwrap();
    writeln!(out, "group.name={:?} desc={:?}", g.name, g.description).unwrap();
    writeln!(out, "group.nostr_group_id={}", hex(&g.nostr_group_id)).unwrap();
    writeln!(out, "group.admins={:?}", g.admin_pubkeys).unwrap();
    writeln!(
        out,
        "group.last_message id={:?} at={:?} processed_at={:?}",
        g.last_message_id.map(|i| i.to_hex()[..8].to_string()),
        g.last_message_at,
        g.last_message_processed_at
    )
    .unwrap();
    writeln!(out, "group.image_hash={:?}", g.image_hash).unwrap();
    writeln!(out, "group.self_update_state={:?}", g.self_update_state).unwrap();
    match c.mdk.get_members(gid) {
        Ok(m) => writeln!(out, "members={:?}", m).unwrap(),
        Err(e) => writeln!(out, "members=ERR {e}").unwrap(),
    }
    match c.mdk.get_relays(gid) {
        Ok(m) => writeln!(out, "relays={:?}", m).unwrap(),
        Err(e) => writeln!(out, "relays=ERR {e}").unwrap(),
    }
    match c.mdk.pending_member_changes(gid) {
        Ok(p) => writeln!(
            out,
            "pending.additions={:?} pending.removals={:?}",
            p.additions, p.removals
        )
        .unwrap(),
        Err(e) => writeln!(out, "pending=ERR {e}").unwrap(),
    }
    match c.mdk.get_ratchet_tree_info(gid) {
        Ok(t) => writeln!(out, "tree_hash={}", t.tree_hash).unwrap(),
        Err(e) => writeln!(out, "tree=ERR {e}").unwrap(),
    }
    #[cfg(feature = "debug-examples")]
    {
        match c.mdk.load_mls_group(gid) {
            Ok(Some(m)) => {
                writeln!(out, "mls.epoch={}", m.epoch().as_u64()).unwrap();
                writeln!(out, "mls.active={}", m.is_active()).unwrap();
                writeln!(out, "mls.own_leaf_index={:?}", m.own_leaf_index()).unwrap();
                writeln!(out, "mls.pending_commit={}", m.pending_commit().is_some()).unwrap();
                if let Some(pc) = m.pending_commit() {
                    writeln!(
                        out,
                        "mls.pending_commit.ctx_epoch={:?} n_props={}",
                        pc.group_context().epoch(),
                        pc.queued_proposals().count()
                    )
                    .unwrap();
                    writeln!(
                        out,
                        "mls.pending_commit.tree_hash={}",
                        hex(pc.group_context().tree_hash())
                    )
                    .unwrap();
                }
                let mut refs: Vec<String> = m
                    .pending_proposals()
                    .map(|p| format!("{:?}", p.proposal_reference_ref()))
                    .collect();
                refs.sort();
                writeln!(out, "mls.pending_proposals={} {:?}", refs.len(), refs).unwrap();
                writeln!(
                    out,
                    "mls.epoch_authenticator={}",
                    hex(m.epoch_authenticator().as_slice())
                )
                .unwrap();
                writeln!(out, "mls.confirmation_tag={:?}", m.confirmation_tag()).unwrap();
            }
            Ok(None) => writeln!(out, "mls=None").unwrap(),
            Err(e) => writeln!(out, "mls=ERR {e}").unwrap(),
        }
    }
    let mut msgs = c.mdk.get_messages(gid, None).unwrap();
    msgs.sort_by_key(|m| m.id.to_hex());
    writeln!(out, "messages.count={}", msgs.len()).unwrap();
    for m in msgs {
        writeln!(
            out,
            "msg {} state={:?} epoch={:?} created_at={} processed_at={} wrapper={} content={:?}",
            &m.id.to_hex()[..8],
            m.state,
            m.epoch,
            m.created_at.as_secs(),
            m.processed_at.as_secs(),
            &m.wrapper_event_id.to_hex()[..8],
            m.content
        )
        .unwrap();
    }
    out
}

pub fn hex(b: &[u8]) -> String {
    b.iter().map(|x| format!("{x:02x}")).collect()
}

pub fn diff(before: &str, after: &str) -> Vec<String> {
    let b: Vec<&str> = before.lines().collect();
    let a: Vec<&str> = after.lines().collect();
    let mut d = Vec::new();
    for l in &b {
        if !a.contains(l) {
            d.push(format!("- {l}"));
        }
    }
    for l in &a {
        if !b.contains(l) {
            d.push(format!("+ {l}"));
        }
    }
    d
}

/// Re-delivers `ev` `times` times and reports every difference in the fingerprint.
pub fn redeliver_and_check<S: MdkStorageProvider>(
    c: &Client<S>,
    gid: &GroupId,
    ev: &Event,
    times: usize,
    label: &str,
) -> Vec<String> {
    let mut problems = Vec::new();
    let before = fingerprint(c, gid);
    for i in 0..times {
        let r = deliver(c, ev);
        let after = fingerprint(c, gid);
        let d = diff(&before, &after);
        if !d.is_empty() {
            problems.push(format!(
                "[{label}] repeat #{} at {} (result {r}) changed:\n      {}",
                i + 1,
                c.name,
                d.join("\n      ")
            ));
            break;
        }
    }
    problems
}

pub fn report(problems: Vec<String>) {
    if !problems.is_empty() {
        for p in &problems {
            eprintln!("VIOLATION {p}");
        }
        panic!("{} C07 violation(s):\n{}", problems.len(), problems.join("\n"));
    }
}

pub fn sleep_1s() {
    std::thread::sleep(std::time::Duration::from_millis(1100));
}

pub fn epoch_of<S: MdkStorageProvider>(c: &Client<S>, gid: &GroupId) -> u64 {
    c.mdk.get_group(gid).unwrap().unwrap().epoch
}
