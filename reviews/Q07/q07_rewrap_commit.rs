//! Q07 / C07: an APPLIED commit delivered again inside a different Nostr wrapper.
//!
//! The kind-445 wrapper is signed with a throw-away key and its content is the NIP-44
//! ciphertext: anybody who has seen the event (a relay, a removed member, an observer) can
//! publish the same content again under a new id and any `created_at`.
mod q07_common;
use mdk_core::prelude::NostrGroupDataUpdate;
use q07_common::*;

#[test]
fn applied_commit_again_in_an_earlier_dated_wrapper() {
    let alice = mem_client("alice");
    let bob = mem_client("bob");
    let carol = mem_client("carol");
    let gid = make_group(&alice, &[&bob, &carol], vec![alice.keys.public_key()]);

    // epoch 1 -> 2: commit A (rename), applied by bob
    let a = alice
        .mdk
        .update_group_data(&gid, NostrGroupDataUpdate::new().name("two"))
        .unwrap()
        .evolution_event;
    alice.mdk.merge_pending_commit(&gid).unwrap();
    assert_eq!(deliver(&bob, &a), "Ok(Commit)");
    let m2 = send(&alice, &gid, "m2 sent in epoch 2");
    assert!(deliver(&bob, &m2).starts_with("Ok(App"));

    // epoch 2 -> 3: commit U, applied by bob
    let u = alice
        .mdk
        .update_group_data(&gid, NostrGroupDataUpdate::new().name("three"))
        .unwrap()
        .evolution_event;
    alice.mdk.merge_pending_commit(&gid).unwrap();
    assert_eq!(deliver(&bob, &u), "Ok(Commit)");
    let m3 = send(&alice, &gid, "m3 sent in epoch 3");
    assert!(deliver(&bob, &m3).starts_with("Ok(App"));
    assert_eq!(epoch_of(&bob, &gid), 3);

    // commit A once more: same payload, new wrapper dated earlier
    let a2 = rewrap(&a, a.created_at.as_secs() - 10);
    let before = fingerprint(&bob, &gid);
    let r = deliver(&bob, &a2);
    let after = fingerprint(&bob, &gid);
    let d = diff(&before, &after);
    eprintln!("result {r}\n{}", d.join("\n"));

    // can bob get back? U and m3 again
    let ru = deliver(&bob, &u);
    let rm = deliver(&bob, &m3);
    eprintln!("U again: {ru}; m3 again: {rm}; bob epoch now {}", epoch_of(&bob, &gid));

    assert!(
        d.is_empty(),
        "commit A (already applied) delivered again in another wrapper changed bob:\n{}",
        d.join("\n")
    );
}

/// The echo of the client's OWN commit, merged when its echo came back (the documented flow:
/// publish, then merge on seeing it), offered again later in an earlier-dated wrapper.
#[test]
fn own_commit_echo_again_in_an_earlier_dated_wrapper() {
    let alice = mem_client("alice");
    let bob = mem_client("bob");
    let carol = mem_client("carol");
    let gid = make_group(&alice, &[&bob, &carol], vec![alice.keys.public_key()]);

    // epoch 1 -> 2: alice's own commit C, merged when the relay echoes it
    let c = alice
        .mdk
        .update_group_data(&gid, NostrGroupDataUpdate::new().name("two"))
        .unwrap()
        .evolution_event;
    assert_eq!(deliver(&alice, &c), "Ok(Commit)");
    assert_eq!(epoch_of(&alice, &gid), 2);
    assert_eq!(deliver(&bob, &c), "Ok(Commit)");
    let m2 = send(&bob, &gid, "m2 from bob in epoch 2");
    assert!(deliver(&alice, &m2).starts_with("Ok(App"));
    let own2 = send(&alice, &gid, "own2 from alice in epoch 2");
    assert!(deliver(&alice, &own2).starts_with("Ok(App"));

    // epoch 2 -> 3: alice's next commit U (merged directly), traffic in epoch 3
    let u = alice
        .mdk
        .update_group_data(&gid, NostrGroupDataUpdate::new().name("three"))
        .unwrap()
        .evolution_event;
    alice.mdk.merge_pending_commit(&gid).unwrap();
    assert_eq!(deliver(&bob, &u), "Ok(Commit)");
    let m3 = send(&bob, &gid, "m3 from bob in epoch 3");
    assert!(deliver(&alice, &m3).starts_with("Ok(App"));
    assert_eq!(epoch_of(&alice, &gid), 3);

    // the same event again first: nothing may change (and nothing does)
    let mut problems = redeliver_and_check(&alice, &gid, &c, 2, "own commit echo, same event");

    // now the same payload in a new, earlier-dated wrapper
    let c2 = rewrap(&c, c.created_at.as_secs() - 10);
    let before = fingerprint(&alice, &gid);
    let r = deliver(&alice, &c2);
    let after = fingerprint(&alice, &gid);
    let d = diff(&before, &after);
    if !d.is_empty() {
        problems.push(format!(
            "own commit C (merged long ago) in another wrapper -> {r}; alice changed:\n      {}",
            d.join("\n      ")
        ));
    }
    // can alice get back to epoch 3?
    let ru = deliver(&alice, &u);
    let rm = deliver(&alice, &m3);
    eprintln!(
        "U again: {ru}; m3 again: {rm}; alice epoch now {} (bob is at {})",
        epoch_of(&alice, &gid),
        epoch_of(&bob, &gid)
    );
    report(problems);
}

/// Same as above, but the second wrapper carries the SAME `created_at` as the first: the
/// id tie-break alone makes the copy the "better" commit (every second re-publication).
#[test]
fn own_commit_echo_again_in_a_wrapper_with_the_same_date() {
    let alice = mem_client("alice");
    let bob = mem_client("bob");
    let gid = make_group(&alice, &[&bob], vec![alice.keys.public_key()]);

    let c = alice
        .mdk
        .update_group_data(&gid, NostrGroupDataUpdate::new().name("two"))
        .unwrap()
        .evolution_event;
    assert_eq!(deliver(&alice, &c), "Ok(Commit)"); // merged on its echo
    assert_eq!(deliver(&bob, &c), "Ok(Commit)");
    let m2 = send(&bob, &gid, "m2 from bob in epoch 2");
    assert!(deliver(&alice, &m2).starts_with("Ok(App"));
    assert_eq!(epoch_of(&alice, &gid), 2);

    // same payload, same created_at, new throw-away key, until the id sorts lower
    let mut c2 = rewrap(&c, c.created_at.as_secs());
    while c2.id.to_hex() >= c.id.to_hex() {
        c2 = rewrap(&c, c.created_at.as_secs());
    }
    let before = fingerprint(&alice, &gid);
    let r = deliver(&alice, &c2);
    let d = diff(&before, &fingerprint(&alice, &gid));
    assert!(
        d.is_empty(),
        "own commit C again (same date, other wrapper) -> {r}; alice changed:\n{}",
        d.join("\n")
    );
}
