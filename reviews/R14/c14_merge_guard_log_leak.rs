//! C14 demonstration: a log record carries the hex MLS group id.
//!
//! `MDK::merge_pending_commit` guards the merge with a storage snapshot named
//! `merge_<hex MLS group id>_<epoch>` and releases it as its last storage step. If the process
//! dies between the two (or the best-effort release fails, its result is discarded), the
//! snapshot stays in the SQLite file. After the restart the first commit processed for that
//! group makes `EpochSnapshotManager::ensure_hydrated` list the group's snapshots; the guard's
//! name does not parse as `snap_<gid>_<epoch>_<commit>` and is written to the log verbatim:
//!
//!   WARN mdk_core::epoch_snapshots: Failed to parse snapshot name during hydration: merge_<hex gid>_<epoch>
//!
//! Two tests:
//!
//! * `leftover_merge_guard_name_is_logged_at_hydration` builds with default features. The
//!   crash image is emulated: the guard is re-created through the public storage trait under
//!   the name the library itself uses.
//! * `crash_before_guard_release_leaks_group_id_in_log` (only with `--cfg verif_hooks` and
//!   `--features mdk-sqlite-storage/verif-hooks`) takes real crash images: the in-tree tick
//!   hook copies the database file at every storage step of the real `merge_pending_commit`;
//!   the copy taken at the last step that still holds the guard is what the disk holds if the
//!   process is killed at that instant. Nothing in the library is modified or mocked.

use std::io;
use std::path::Path;
use std::sync::{Arc, Mutex};

use mdk_core::MDK;
use mdk_core::groups::NostrGroupConfigData;
use mdk_core::messages::MessageProcessingResult;
use mdk_memory_storage::MdkMemoryStorage;
use mdk_sqlite_storage::MdkSqliteStorage;
use mdk_storage_traits::groups::GroupStorage;
use mdk_storage_traits::{GroupId, MdkStorageProvider};
use nostr::{Event, EventBuilder, EventId, Keys, Kind, RelayUrl};
use tracing_subscriber::fmt::MakeWriter;

// ---------------------------------------------------------------------------------------------
// Log capture: every record, TRACE and up, of every target
// ---------------------------------------------------------------------------------------------

#[derive(Clone, Default)]
struct Capture(Arc<Mutex<Vec<u8>>>);

impl io::Write for Capture {
    fn write(&mut self, buf: &[u8]) -> io::Result<usize> {
        self.0.lock().unwrap().extend_from_slice(buf);
        Ok(buf.len())
    }
    fn flush(&mut self) -> io::Result<()> {
        Ok(())
    }
}

impl<'a> MakeWriter<'a> for Capture {
    type Writer = Capture;
    fn make_writer(&'a self) -> Self::Writer {
        self.clone()
    }
}

impl Capture {
    fn text(&self) -> String {
        String::from_utf8_lossy(&self.0.lock().unwrap()).into_owned()
    }
}

fn with_captured_logs<T>(f: impl FnOnce() -> T) -> (T, String) {
    let capture = Capture::default();
    let subscriber = tracing_subscriber::fmt()
        .with_max_level(tracing::Level::TRACE)
        .with_ansi(false)
        .with_writer(capture.clone())
        .finish();
    let out = tracing::subscriber::with_default(subscriber, f);
    (out, capture.text())
}

// ---------------------------------------------------------------------------------------------
// Needles: the forms in which an identifier or a secret can appear in text
// ---------------------------------------------------------------------------------------------

struct Needles(Vec<(String, String)>);

impl Needles {
    fn new() -> Self {
        Self(Vec::new())
    }
    fn add(&mut self, what: &str, bytes: &[u8]) {
        self.0
            .push((format!("{what} (hex)"), hex::encode(bytes)));
        self.0
            .push((format!("{what} (HEX)"), hex::encode_upper(bytes)));
        self.0
            .push((format!("{what} (byte list)"), format!("{:?}", bytes)));
    }
    /// Lines of `text` that contain a needle, with the name of the needle.
    fn hits(&self, text: &str) -> Vec<(String, String)> {
        let mut out = Vec::new();
        for line in text.lines() {
            for (what, needle) in &self.0 {
                if line.contains(needle.as_str()) {
                    out.push((what.clone(), line.to_string()));
                }
            }
        }
        out
    }
}

// ---------------------------------------------------------------------------------------------
// Scenario helpers (public API only)
// ---------------------------------------------------------------------------------------------

fn key_package_event<S: MdkStorageProvider>(mdk: &MDK<S>, keys: &Keys) -> Event {
    let relays = vec![RelayUrl::parse("wss://test.relay").unwrap()];
    let (content, tags, _) = mdk
        .create_key_package_for_event(&keys.public_key(), relays)
        .expect("key package");
    EventBuilder::new(Kind::MlsKeyPackage, content)
        .tags(tags)
        .sign_with_keys(keys)
        .expect("sign key package")
}

struct World {
    alice: MDK<MdkSqliteStorage>,
    bob: MDK<MdkMemoryStorage>,
    gid: GroupId,
    nostr_gid: [u8; 32],
}

/// Alice (SQLite file at `db`) creates a group with Bob (memory); Bob joins. Both are admins.
fn setup(db: &Path) -> World {
    let alice_keys = Keys::generate();
    let bob_keys = Keys::generate();
    let alice = MDK::new(MdkSqliteStorage::new_unencrypted(db).expect("open alice db"));
    let bob = MDK::new(MdkMemoryStorage::default());

    let bob_kp = key_package_event(&bob, &bob_keys);
    let config = NostrGroupConfigData::new(
        "g".to_string(),
        "d".to_string(),
        None,
        None,
        None,
        vec![RelayUrl::parse("wss://test.relay").unwrap()],
        vec![alice_keys.public_key(), bob_keys.public_key()],
    );
    let created = alice
        .create_group(&alice_keys.public_key(), vec![bob_kp], config)
        .expect("create group");
    let gid = created.group.mls_group_id.clone();
    let nostr_gid = created.group.nostr_group_id;
    alice.merge_pending_commit(&gid).expect("merge creation");

    let welcome = bob
        .process_welcome(&EventId::all_zeros(), &created.welcome_rumors[0])
        .expect("bob processes welcome");
    bob.accept_welcome(&welcome).expect("bob accepts");

    World {
        alice,
        bob,
        gid,
        nostr_gid,
    }
}

/// What the restarted client does: open the file, process the next commit of the group.
/// Returns everything that was logged and the Display/Debug text of the result.
fn restart_and_process(db: &Path, commit: &Event) -> (String, String) {
    let (result_text, logs) = with_captured_logs(|| {
        let alice2 = MDK::new(MdkSqliteStorage::new_unencrypted(db).expect("reopen alice db"));
        let res = alice2.process_message(commit);
        match &res {
            Ok(r) => {
                assert!(
                    matches!(r, MessageProcessingResult::Commit { .. }),
                    "Bob's commit should be applied after the restart, got {r:?}"
                );
                format!("{r:?}")
            }
            Err(e) => format!("{e} / {e:?}"),
        }
    });
    (logs, result_text)
}

fn needles_for(db: &Path, gid: &GroupId, nostr_gid: &[u8; 32]) -> Needles {
    let mut n = Needles::new();
    n.add("MLS group id", gid.as_slice());
    n.add("Nostr group id", nostr_gid);
    // Exporter secrets the file holds for the group
    let storage = MdkSqliteStorage::new_unencrypted(db).expect("open for needles");
    for epoch in 0..8u64 {
        if let Ok(Some(s)) = storage.get_group_exporter_secret(gid, epoch) {
            n.add(&format!("exporter secret of epoch {epoch}"), s.secret.as_ref());
        }
    }
    n
}

fn report_and_fail(kind: &str, hits: &[(String, String)]) -> ! {
    for (what, line) in hits {
        eprintln!("C14 VIOLATION [{kind}] {what} in: {line}");
    }
    panic!(
        "C14 violated: {} {kind} record(s) carry a group identifier or secret",
        hits.len()
    );
}

// ---------------------------------------------------------------------------------------------
// Test 1 (default features): the crash image is emulated through the storage trait
// ---------------------------------------------------------------------------------------------

#[test]
fn leftover_merge_guard_name_is_logged_at_hydration() {
    let dir = tempfile::tempdir().unwrap();
    let db = dir.path().join("alice.db");
    let w = setup(&db);

    // Alice commits (self-update), publishes, Bob applies it, Alice merges.
    let (epoch_before, logs_live) = with_captured_logs(|| {
        let update = w.alice.self_update(&w.gid).expect("alice self_update");
        w.bob
            .process_message(&update.evolution_event)
            .expect("bob applies alice's commit");
        let epoch_before = w.alice.get_group(&w.gid).unwrap().unwrap().epoch;
        w.alice.merge_pending_commit(&w.gid).expect("alice merges");
        epoch_before
    });

    // Bob commits next.
    let bob_update = w.bob.self_update(&w.gid).expect("bob self_update");
    w.bob.merge_pending_commit(&w.gid).expect("bob merges");

    // The state the file is in when the process dies right before the last storage step of
    // merge_pending_commit (the release of the guard): merged group + guard still there.
    // The name is the one groups.rs builds: "merge_{hex gid}_{epoch before the merge}".
    let guard_name = format!("merge_{}_{}", hex::encode(w.gid.as_slice()), epoch_before);
    {
        let raw = MdkSqliteStorage::new_unencrypted(&db).unwrap();
        raw.create_group_snapshot(&w.gid, &guard_name).unwrap();
    }
    let gid = w.gid.clone();
    let nostr_gid = w.nostr_gid;
    drop(w.alice); // process death

    let needles = needles_for(&db, &gid, &nostr_gid);
    assert!(
        needles.hits(&logs_live).is_empty(),
        "the run without a crash logs nothing sensitive"
    );

    let (logs, result_text) = restart_and_process(&db, &bob_update.evolution_event);
    let result_hits = needles.hits(&result_text);
    if !result_hits.is_empty() {
        report_and_fail("result", &result_hits);
    }
    let hits = needles.hits(&logs);
    if !hits.is_empty() {
        report_and_fail("log", &hits);
    }
}

// ---------------------------------------------------------------------------------------------
// Test 2 (verif hooks): real crash images of the real merge_pending_commit
// ---------------------------------------------------------------------------------------------

#[cfg(verif_hooks)]
#[test]
fn crash_before_guard_release_leaks_group_id_in_log() {
    use std::cell::RefCell;
    use std::rc::Rc;

    use mdk_sqlite_storage::verif::{Point, set_thread_hook};

    let dir = tempfile::tempdir().unwrap();
    let db = dir.path().join("alice.db");
    let w = setup(&db);

    let update = w.alice.self_update(&w.gid).expect("alice self_update");
    w.bob
        .process_message(&update.evolution_event)
        .expect("bob applies alice's commit");

    // At every storage step boundary of merge_pending_commit (no transaction is open on the
    // single connection there, the journal mode is the default rollback journal, so the file
    // is a committed state) copy the file: image k is what the disk holds if the process is
    // killed at step k.
    let images: Rc<RefCell<Vec<std::path::PathBuf>>> = Rc::new(RefCell::new(Vec::new()));
    {
        let images = images.clone();
        let db = db.clone();
        let dir = dir.path().to_path_buf();
        set_thread_hook(Some(Box::new(move |p: Point| {
            if p == Point::Conn {
                let k = images.borrow().len();
                let img = dir.join(format!("image_{k}.db"));
                std::fs::copy(&db, &img).expect("copy image");
                images.borrow_mut().push(img);
            }
        })));
    }
    let (_, logs_live) = with_captured_logs(|| {
        w.alice.merge_pending_commit(&w.gid).expect("alice merges");
    });
    set_thread_hook(None);

    let bob_update = w.bob.self_update(&w.gid).expect("bob self_update");
    w.bob.merge_pending_commit(&w.gid).expect("bob merges");

    // The latest image that still holds the guard: death right before its release.
    let images = images.borrow().clone();
    assert!(!images.is_empty());
    let mut chosen = None;
    for (k, img) in images.iter().enumerate().rev() {
        let s = MdkSqliteStorage::new_unencrypted(img).unwrap();
        let names = s.list_group_snapshots(&w.gid).unwrap();
        if names.iter().any(|(n, _)| n.starts_with("merge_")) {
            chosen = Some((k, img.clone()));
            break;
        }
    }
    let (k, img) = chosen.expect("some crash image holds the merge guard");
    eprintln!(
        "crash image {k} of {} (storage steps of merge_pending_commit) still holds the merge guard",
        images.len()
    );

    let needles = needles_for(&img, &w.gid, &w.nostr_gid);
    assert!(
        needles.hits(&logs_live).is_empty(),
        "the run without a crash logs nothing sensitive"
    );

    let (logs, result_text) = restart_and_process(&img, &bob_update.evolution_event);
    let result_hits = needles.hits(&result_text);
    if !result_hits.is_empty() {
        report_and_fail("result", &result_hits);
    }
    let hits = needles.hits(&logs);
    if !hits.is_empty() {
        report_and_fail("log", &hits);
    }
}
