//! C14 side observation (informational, never fails): which public result / record types print
//! a group identifier in their derived `Debug` output.

use mdk_core::MDK;
use mdk_core::extension::NostrGroupDataExtension;
use mdk_core::groups::NostrGroupConfigData;
use mdk_memory_storage::MdkMemoryStorage;
use mdk_storage_traits::groups::GroupStorage;
use nostr::{Event, EventBuilder, EventId, Keys, Kind, RelayUrl};
use openmls_traits::OpenMlsProvider;

fn kp(mdk: &MDK<MdkMemoryStorage>, keys: &Keys) -> Event {
    let relays = vec![RelayUrl::parse("wss://test.relay").unwrap()];
    let (content, tags, _) = mdk
        .create_key_package_for_event(&keys.public_key(), relays)
        .unwrap();
    EventBuilder::new(Kind::MlsKeyPackage, content)
        .tags(tags)
        .sign_with_keys(keys)
        .unwrap()
}

#[test]
fn debug_of_public_result_types() {
    let (ak, bk) = (Keys::generate(), Keys::generate());
    let alice = MDK::new(MdkMemoryStorage::default());
    let bob = MDK::new(MdkMemoryStorage::default());
    let created = alice
        .create_group(
            &ak.public_key(),
            vec![kp(&bob, &bk)],
            NostrGroupConfigData::new(
                "g".into(),
                "d".into(),
                Some([1; 32]),
                Some([0x5a; 32]),
                Some([0x6b; 12]),
                vec![RelayUrl::parse("wss://test.relay").unwrap()],
                vec![ak.public_key()],
            ),
        )
        .unwrap();
    let gid = created.group.mls_group_id.clone();
    let ngid = created.group.nostr_group_id;
    let needles = [
        ("MLS group id hex", hex::encode(gid.as_slice())),
        ("MLS group id list", format!("{:?}", gid.as_slice())),
        ("Nostr group id hex", hex::encode(ngid)),
        ("Nostr group id list", format!("{:?}", ngid)),
        ("image key list", format!("{:?}", [0x5au8; 32])),
        ("image key hex", hex::encode([0x5au8; 32])),
    ];
    let mut report = |name: &str, text: String| {
        let found: Vec<&str> = needles
            .iter()
            .filter(|(_, n)| text.contains(n.as_str()))
            .map(|(w, _)| *w)
            .collect();
        eprintln!("{name}: {}", if found.is_empty() { "clean".to_string() } else { found.join(", ") });
    };
    report("GroupResult (create_group)", format!("{created:?}"));
    report("Group", format!("{:?}", created.group));
    alice.merge_pending_commit(&gid).unwrap();
    let w = bob
        .process_welcome(&EventId::all_zeros(), &created.welcome_rumors[0])
        .unwrap();
    report("Welcome (process_welcome)", format!("{w:?}"));
    bob.accept_welcome(&w).unwrap();
    let upd = alice.self_update(&gid).unwrap();
    report("UpdateGroupResult (self_update)", format!("{upd:?}"));
    let msg = alice
        .create_message(&gid, EventBuilder::new(Kind::TextNote, "x").build(ak.public_key()))
        .unwrap();
    report("Event (create_message)", format!("{msg:?}"));
    alice.clear_pending_commit(&gid).unwrap();
    let m = alice.get_messages(&gid, None).unwrap();
    report("Message (get_messages)", format!("{m:?}"));
    let s = alice
        .provider
        .storage()
        .get_group_exporter_secret(&gid, 1)
        .unwrap()
        .unwrap();
    report("GroupExporterSecret", format!("{s:?}"));
    let mls = openmls::group::MlsGroup::load(alice.provider.storage(), gid.inner())
        .unwrap()
        .unwrap();
    let ext = NostrGroupDataExtension::from_group(&mls).unwrap();
    report("NostrGroupDataExtension", format!("{ext:?}"));
    report("GroupId", format!("{gid:?}"));
    report("MdkConfig", format!("{:?}", alice.config));
}
