//! C14 sweep: drive honest histories and hostile inputs on both backends with every log record
//! (TRACE and up) captured, and search the log text and the Display/Debug text of every error
//! and processing result for the group identifiers and secrets involved (hex, HEX, byte list).
//!
//! This sweep is the "nothing else leaks" half of the review; the violation that was found is
//! demonstrated in `c14_merge_guard_log_leak.rs`.

use std::io;
use std::sync::{Arc, Mutex};

use mdk_core::MDK;
use mdk_core::extension::group_image::{decrypt_group_image, prepare_group_image_for_upload};
use mdk_core::groups::{NostrGroupConfigData, NostrGroupDataUpdate};
use mdk_memory_storage::MdkMemoryStorage;
use mdk_sqlite_storage::MdkSqliteStorage;
use mdk_sqlite_storage::encryption::EncryptionConfig;
use mdk_storage_traits::groups::GroupStorage;
use mdk_storage_traits::{GroupId, MdkStorageProvider, Secret};
use nostr::nips::nip44;
use nostr::{
    Event, EventBuilder, EventId, Keys, Kind, RelayUrl, SecretKey, Tag, TagKind, Timestamp,
};
use openmls_traits::OpenMlsProvider;
use tracing_subscriber::fmt::MakeWriter;

#[derive(Clone, Default)]
struct Capture(Arc<Mutex<Vec<u8>>>);
impl io::Write for Capture {
    fn write(&mut self, buf: &[u8]) -> io::Result<usize> {
        self.0.lock().unwrap().extend_from_slice(buf);
        Ok(buf.len())
    }
    fn flush(&mut self) -> io::Result<()> {
        Ok(())
    }
}
impl<'a> MakeWriter<'a> for Capture {
    type Writer = Capture;
    fn make_writer(&'a self) -> Self::Writer {
        self.clone()
    }
}

#[derive(Default)]
struct Needles(Vec<(String, String)>);
impl Needles {
    fn add(&mut self, what: &str, bytes: &[u8]) {
        if bytes.iter().all(|b| *b == 0) {
            return;
        }
        let hex_l = hex::encode(bytes);
        if self.0.iter().any(|(_, n)| *n == hex_l) {
            return;
        }
        self.0.push((format!("{what} (hex)"), hex_l));
        self.0
            .push((format!("{what} (HEX)"), hex::encode_upper(bytes)));
        self.0
            .push((format!("{what} (byte list)"), format!("{:?}", bytes)));
    }
    fn hits(&self, label: &str, text: &str) -> Vec<String> {
        let mut out = Vec::new();
        for line in text.lines() {
            for (what, needle) in &self.0 {
                if line.contains(needle.as_str()) {
                    out.push(format!("[{label}] {what} in: {line}"));
                }
            }
        }
        out
    }
}

/// Texts of errors and results seen during the run
#[derive(Default)]
struct Seen(Vec<(String, String)>);
impl Seen {
    fn res<T: std::fmt::Debug, E: std::fmt::Display + std::fmt::Debug>(
        &mut self,
        label: &str,
        r: &Result<T, E>,
    ) {
        match r {
            Ok(v) => self.0.push((format!("{label}: Ok"), format!("{v:?}"))),
            Err(e) => self
                .0
                .push((format!("{label}: Err"), format!("{e}\n{e:?}"))),
        }
    }
    fn err<T, E: std::fmt::Display + std::fmt::Debug>(&mut self, label: &str, r: &Result<T, E>) {
        if let Err(e) = r {
            self.0
                .push((format!("{label}: Err"), format!("{e}\n{e:?}")));
        } else {
            self.0.push((format!("{label}: Ok"), String::new()));
        }
    }
}

fn kp<S: MdkStorageProvider>(mdk: &MDK<S>, keys: &Keys) -> Event {
    let relays = vec![RelayUrl::parse("wss://test.relay").unwrap()];
    let (content, tags, _) = mdk
        .create_key_package_for_event(&keys.public_key(), relays)
        .unwrap();
    EventBuilder::new(Kind::MlsKeyPackage, content)
        .tags(tags)
        .sign_with_keys(keys)
        .unwrap()
}

fn rumor(keys: &Keys, content: &str) -> nostr::UnsignedEvent {
    EventBuilder::new(Kind::TextNote, content).build(keys.public_key())
}

fn wrapper(h: &[String], content: &str, kind: Kind, ts: Option<Timestamp>) -> Event {
    let mut b = EventBuilder::new(kind, content);
    for v in h {
        b = b.tag(Tag::custom(TagKind::h(), [v.clone()]));
    }
    if let Some(ts) = ts {
        b = b.custom_created_at(ts);
    }
    b.sign_with_keys(&Keys::generate()).unwrap()
}

fn secrets_of<S: MdkStorageProvider>(n: &mut Needles, who: &str, mdk: &MDK<S>, gid: &GroupId) {
    for epoch in 0..16u64 {
        if let Ok(Some(s)) = mdk
            .provider
            .storage()
            .get_group_exporter_secret(gid, epoch)
        {
            n.add(
                &format!("{who}: exporter secret of epoch {epoch}"),
                s.secret.as_ref(),
            );
        }
    }
    if let Ok(Some(g)) = mdk.get_group(gid) {
        n.add(&format!("{who}: MLS group id"), g.mls_group_id.as_slice());
        n.add(&format!("{who}: Nostr group id"), &g.nostr_group_id);
        if let Some(k) = &g.image_key {
            n.add(&format!("{who}: image key"), k.as_ref());
        }
        if let Some(k) = &g.image_nonce {
            n.add(&format!("{who}: image nonce"), k.as_ref());
        }
    }
}

fn sweep<S: MdkStorageProvider>(mk: &dyn Fn(&str) -> S, extra: &[(&str, Vec<u8>)]) {
    let capture = Capture::default();
    let subscriber = tracing_subscriber::fmt()
        .with_max_level(tracing::Level::TRACE)
        .with_ansi(false)
        .with_writer(capture.clone())
        .finish();
    let mut seen = Seen::default();
    let mut needles = Needles::default();
    for (what, bytes) in extra {
        needles.add(what, bytes);
    }

    tracing::subscriber::with_default(subscriber, || {
        let (ak, bk, ck, dk) = (
            Keys::generate(),
            Keys::generate(),
            Keys::generate(),
            Keys::generate(),
        );
        let alice = MDK::new(mk("alice"));
        let bob = MDK::new(mk("bob"));
        let carol = MDK::new(mk("carol"));
        let dave = MDK::new(mk("dave"));

        let image_key = [0x5au8; 32];
        let image_nonce = [0x6bu8; 12];
        needles.add("configured image key", &image_key);
        needles.add("configured image nonce", &image_nonce);
        let config = |admins: Vec<nostr::PublicKey>| {
            NostrGroupConfigData::new(
                "g".into(),
                "d".into(),
                Some([0x11; 32]),
                Some(image_key),
                Some(image_nonce),
                vec![RelayUrl::parse("wss://test.relay").unwrap()],
                admins,
            )
        };

        // --- group creation, welcomes -------------------------------------------------------
        let created = alice
            .create_group(
                &ak.public_key(),
                vec![kp(&bob, &bk), kp(&carol, &ck)],
                config(vec![ak.public_key(), bk.public_key()]),
            )
            .unwrap();
        let gid = created.group.mls_group_id.clone();
        let nostr_gid = created.group.nostr_group_id;
        needles.add("MLS group id", gid.as_slice());
        needles.add("Nostr group id", &nostr_gid);
        seen.err("merge creation", &alice.merge_pending_commit(&gid));

        let wb = bob
            .process_welcome(&EventId::all_zeros(), &created.welcome_rumors[0])
            .unwrap();
        seen.err("bob accept", &bob.accept_welcome(&wb));
        // the same welcome again, under another wrapper id, and after acceptance
        let again = bob.process_welcome(
            &EventId::from_slice(&[7u8; 32]).unwrap(),
            &created.welcome_rumors[0],
        );
        seen.err("bob: welcome again", &again);
        let wc = carol
            .process_welcome(&EventId::all_zeros(), &created.welcome_rumors[1])
            .unwrap();
        seen.err("carol accept", &carol.accept_welcome(&wc));
        // welcome meant for somebody else
        let r = dave.process_welcome(
            &EventId::from_slice(&[8u8; 32]).unwrap(),
            &created.welcome_rumors[0],
        );
        seen.err("dave: welcome not for him", &r);
        let r = dave.process_welcome(
            &EventId::from_slice(&[8u8; 32]).unwrap(),
            &created.welcome_rumors[0],
        );
        seen.err("dave: failed welcome again", &r);
        // accept / decline of a welcome this client never saw
        seen.err("dave: accept unknown welcome", &dave.accept_welcome(&wb));
        seen.err("dave: decline unknown welcome", &dave.decline_welcome(&wb));
        // malformed welcome rumors
        let mut bad = created.welcome_rumors[0].clone();
        bad.content = "AAAA".into();
        bad.id = None;
        bad.ensure_id();
        let r = dave.process_welcome(&EventId::from_slice(&[9u8; 32]).unwrap(), &bad);
        seen.err("dave: garbage welcome", &r);
        let mut bad = created.welcome_rumors[0].clone();
        bad.content = "!!not base64!!".into();
        bad.id = None;
        bad.ensure_id();
        let r = dave.process_welcome(&EventId::from_slice(&[10u8; 32]).unwrap(), &bad);
        seen.err("dave: non-base64 welcome", &r);

        // --- messages -----------------------------------------------------------------------
        let m1 = alice.create_message(&gid, rumor(&ak, "hello")).unwrap();
        seen.res("bob m1", &bob.process_message(&m1));
        seen.res("bob m1 again", &bob.process_message(&m1));
        seen.res("carol m1", &carol.process_message(&m1));
        seen.res("alice own m1", &alice.process_message(&m1));
        seen.res("dave m1 (unknown group)", &dave.process_message(&m1));
        seen.res("dave m1 again", &dave.process_message(&m1));

        // --- malformed wrappers -------------------------------------------------------------
        let h = hex::encode(nostr_gid);
        let cases: Vec<(&str, Event)> = vec![
            (
                "garbage content",
                wrapper(&[h.clone()], "garbage", Kind::MlsGroupMessage, None),
            ),
            (
                "no h tag",
                wrapper(&[], &m1.content, Kind::MlsGroupMessage, None),
            ),
            (
                "two h tags",
                wrapper(
                    &[h.clone(), h.clone()],
                    &m1.content,
                    Kind::MlsGroupMessage,
                    None,
                ),
            ),
            (
                "short h tag",
                wrapper(&[h[..62].to_string()], &m1.content, Kind::MlsGroupMessage, None),
            ),
            (
                "non-hex h tag",
                wrapper(
                    &[format!("zz{}", &h[2..])],
                    &m1.content,
                    Kind::MlsGroupMessage,
                    None,
                ),
            ),
            (
                "wrong kind",
                wrapper(&[h.clone()], &m1.content, Kind::TextNote, None),
            ),
            (
                "too old",
                wrapper(
                    &[h.clone()],
                    &m1.content,
                    Kind::MlsGroupMessage,
                    Some(Timestamp::from(1_000_000)),
                ),
            ),
            (
                "future",
                wrapper(
                    &[h.clone()],
                    &m1.content,
                    Kind::MlsGroupMessage,
                    Some(Timestamp::from(Timestamp::now().as_secs() + 1_000_000)),
                ),
            ),
        ];
        for (label, ev) in &cases {
            seen.res(&format!("bob: {label}"), &bob.process_message(ev));
            seen.res(&format!("bob: {label} again"), &bob.process_message(ev));
        }
        // well-encrypted wrapper with garbage / truncated MLS inside
        let secret = bob
            .provider
            .storage()
            .get_group_exporter_secret(&gid, 1)
            .unwrap()
            .unwrap();
        let keys = Keys::new(SecretKey::from_slice(secret.secret.as_ref()).unwrap());
        for (label, bytes) in [
            ("forged: garbage MLS", vec![0xde, 0xad, 0xbe, 0xef]),
            ("forged: group id as MLS", gid.as_slice().to_vec()),
        ] {
            let content = nip44::encrypt(
                keys.secret_key(),
                &keys.public_key,
                &bytes,
                nip44::Version::default(),
            )
            .unwrap();
            let ev = wrapper(&[h.clone()], &content, Kind::MlsGroupMessage, None);
            seen.res(&format!("bob: {label}"), &bob.process_message(&ev));
        }

        // --- commits: non-admin, race + rollback, wrong epoch --------------------------------
        // carol (not an admin) tries a group data change
        let r = carol.update_group_data(&gid, NostrGroupDataUpdate::new().name("x"));
        seen.err("carol: update_group_data as non-admin", &r);
        let r = carol.add_members(&gid, &[kp(&dave, &dk)]);
        seen.err("carol: add_members as non-admin", &r);

        // alice and bob commit in the same epoch
        let ca = alice
            .update_group_data(&gid, NostrGroupDataUpdate::new().name("by alice"))
            .unwrap();
        let cb = bob
            .update_group_data(&gid, NostrGroupDataUpdate::new().name("by bob"))
            .unwrap();
        let (ea, eb) = (ca.evolution_event.clone(), cb.evolution_event.clone());
        let a_better = (ea.created_at, ea.id.to_hex()) < (eb.created_at, eb.id.to_hex());
        let (better, worse) = if a_better { (&ea, &eb) } else { (&eb, &ea) };
        // carol sees the worse one first, then the better one: rollback
        seen.res("carol: worse commit", &carol.process_message(worse));
        let late = if a_better {
            // a message in the losing branch
            seen.err("bob merges losing commit", &bob.merge_pending_commit(&gid));
            Some(bob.create_message(&gid, rumor(&bk, "lost")).unwrap())
        } else {
            seen.err("alice merges losing commit", &alice.merge_pending_commit(&gid));
            Some(alice.create_message(&gid, rumor(&ak, "lost")).unwrap())
        };
        if let Some(l) = &late {
            seen.res("carol: message of losing branch", &carol.process_message(l));
        }
        seen.res("carol: better commit (rollback)", &carol.process_message(better));
        seen.res("carol: worse commit again", &carol.process_message(worse));
        if let Some(l) = &late {
            seen.res("carol: losing-branch message again", &carol.process_message(l));
        }
        // the authors
        if a_better {
            seen.res("bob: better commit over own merged", &bob.process_message(better));
            seen.res("alice: own commit", &alice.process_message(better));
            seen.err("alice merge", &alice.merge_pending_commit(&gid));
            seen.res("alice: worse commit", &alice.process_message(worse));
        } else {
            seen.res("alice: better commit over own merged", &alice.process_message(better));
            seen.res("bob: own commit", &bob.process_message(better));
            seen.err("bob merge", &bob.merge_pending_commit(&gid));
            seen.res("bob: worse commit", &bob.process_message(worse));
        }
        seen.err("alice: merge with nothing pending", &alice.merge_pending_commit(&gid));
        seen.err("alice: clear with nothing pending", &alice.clear_pending_commit(&gid));

        // a message from an epoch far in the past / an old commit again
        seen.res("carol: m1 again after commits", &carol.process_message(&m1));
        seen.res("bob: old commit again", &bob.process_message(worse));

        // --- member changes -----------------------------------------------------------------
        let add = alice.add_members(&gid, &[kp(&dave, &dk)]);
        seen.err("alice add dave", &add);
        if let Ok(add) = add {
            seen.res("bob: add commit", &bob.process_message(&add.evolution_event));
            seen.res("carol: add commit", &carol.process_message(&add.evolution_event));
            seen.err("alice merge add", &alice.merge_pending_commit(&gid));
            if let Some(w) = add.welcome_rumors.as_ref().and_then(|w| w.first()) {
                let wd = dave.process_welcome(&EventId::from_slice(&[11u8; 32]).unwrap(), w);
                seen.err("dave: welcome", &wd);
                if let Ok(wd) = wd {
                    seen.err("dave: decline", &dave.decline_welcome(&wd));
                    seen.err("dave: accept after decline", &dave.accept_welcome(&wd));
                }
            }
        }
        // nostr group id collision: a second group that wants the first one's nostr id
        let other = alice
            .create_group(&ak.public_key(), vec![], config(vec![ak.public_key()]))
            .unwrap();
        let gid2 = other.group.mls_group_id.clone();
        needles.add("MLS group id (2)", gid2.as_slice());
        needles.add("Nostr group id (2)", &other.group.nostr_group_id);
        seen.err("alice merge 2", &alice.merge_pending_commit(&gid2));
        let r = alice
            .update_group_data(&gid2, NostrGroupDataUpdate::new().nostr_group_id(nostr_gid));
        seen.err("alice: take a used nostr id", &r);
        seen.err("alice: merge taking a used nostr id", &alice.merge_pending_commit(&gid2));
        seen.err("alice: clear", &alice.clear_pending_commit(&gid2));

        // remove carol; carol processes her own removal, then more traffic
        let rm = alice.remove_members(&gid, &[ck.public_key()]);
        seen.err("alice remove carol", &rm);
        if let Ok(rm) = rm {
            seen.res("carol: own removal", &carol.process_message(&rm.evolution_event));
            seen.res("bob: removal", &bob.process_message(&rm.evolution_event));
            seen.err("alice merge removal", &alice.merge_pending_commit(&gid));
            let m = alice.create_message(&gid, rumor(&ak, "after")).unwrap();
            seen.res("carol: message after eviction", &carol.process_message(&m));
            let r = carol.create_message(&gid, rumor(&ck, "evicted"));
            seen.err("carol: send after eviction", &r);
            seen.err("carol: self_update after eviction", &carol.self_update(&gid));
        }
        // bob leaves
        let leave = bob.leave_group(&gid);
        seen.err("bob leave", &leave);
        if let Ok(leave) = leave {
            seen.res("alice: leave proposal", &alice.process_message(&leave.evolution_event));
        }

        // unknown group through the API
        let nowhere = GroupId::from_slice(&[0x77; 16]);
        seen.err("unknown: merge", &alice.merge_pending_commit(&nowhere));
        seen.err("unknown: self_update", &alice.self_update(&nowhere));
        seen.err("unknown: get_members", &alice.get_members(&nowhere));
        seen.err("unknown: get_messages", &alice.get_messages(&nowhere, None));
        seen.err("unknown: get_relays", &alice.get_relays(&nowhere));
        seen.err(
            "unknown: create_message",
            &alice.create_message(&nowhere, rumor(&ak, "x")),
        );

        // --- group image --------------------------------------------------------------------
        let mut png = Vec::new();
        {
            // 2x2 PNG through the `image` crate is not reachable from here; use a fixed one
            const PNG_1X1: &[u8] = &[
                0x89, 0x50, 0x4e, 0x47, 0x0d, 0x0a, 0x1a, 0x0a, 0x00, 0x00, 0x00, 0x0d, 0x49,
                0x48, 0x44, 0x52, 0x00, 0x00, 0x00, 0x01, 0x00, 0x00, 0x00, 0x01, 0x08, 0x06,
                0x00, 0x00, 0x00, 0x1f, 0x15, 0xc4, 0x89, 0x00, 0x00, 0x00, 0x0d, 0x49, 0x44,
                0x41, 0x54, 0x78, 0x9c, 0x63, 0xf8, 0xcf, 0xc0, 0xf0, 0x1f, 0x00, 0x05, 0x00,
                0x01, 0xff, 0x89, 0x99, 0x3d, 0x1d, 0x00, 0x00, 0x00, 0x00, 0x49, 0x45, 0x4e,
                0x44, 0xae, 0x42, 0x60, 0x82,
            ];
            png.extend_from_slice(PNG_1X1);
        }
        let up = prepare_group_image_for_upload(&png, "image/png");
        seen.err("prepare image", &up);
        if let Ok(up) = up {
            needles.add("generated image seed", up.image_key.as_ref());
            needles.add("generated image upload seed", up.image_upload_key.as_ref());
            needles.add("generated image nonce", up.image_nonce.as_ref());
            seen.0
                .push(("GroupImageUpload Debug".into(), format!("{up:?}")));
            let wrong = Secret::new([0x42u8; 32]);
            let r = decrypt_group_image(
                up.encrypted_data.as_ref(),
                Some(&up.encrypted_hash),
                &wrong,
                &up.image_nonce,
            );
            seen.err("decrypt image with wrong key", &r);
            let r = decrypt_group_image(
                &up.encrypted_data.as_ref()[1..],
                Some(&up.encrypted_hash),
                &up.image_key,
                &up.image_nonce,
            );
            seen.err("decrypt tampered image", &r);
        }
        let r = prepare_group_image_for_upload(b"not an image", "image/png");
        seen.err("prepare non-image", &r);

        // --- encrypted media (mip04) ----------------------------------------------------------
        #[cfg(feature = "mip04")]
        {
            let mm = alice.media_manager(gid.clone());
            let up = mm.encrypt_for_upload(&png, "image/png", "a.png");
            seen.err("media encrypt", &up);
            if let Ok(up) = up {
                let mut reference = mm.create_media_reference(&up, "https://x/y".into());
                let mut data = up.encrypted_data.clone();
                data[0] ^= 1;
                seen.err("media: tampered", &mm.decrypt_from_download(&data, &reference));
                reference.nonce = [9; 12];
                seen.err(
                    "media: wrong nonce",
                    &mm.decrypt_from_download(&up.encrypted_data, &reference),
                );
                let mm2 = dave.media_manager(gid.clone());
                seen.err(
                    "media: not a member",
                    &mm2.decrypt_from_download(&up.encrypted_data, &reference),
                );
            }
        }

        // secrets the clients hold at the end
        secrets_of(&mut needles, "alice", &alice, &gid);
        secrets_of(&mut needles, "alice", &alice, &gid2);
        secrets_of(&mut needles, "bob", &bob, &gid);
        secrets_of(&mut needles, "carol", &carol, &gid);
        secrets_of(&mut needles, "dave", &dave, &gid);
    });

    let logs = String::from_utf8_lossy(&capture.0.lock().unwrap()).into_owned();
    let mut hits = needles.hits("log", &logs);
    for (label, text) in &seen.0 {
        hits.extend(needles.hits(label, text));
    }
    eprintln!(
        "sweep: {} log lines, {} error/result texts, {} needles",
        logs.lines().count(),
        seen.0.len(),
        needles.0.len()
    );
    if std::env::var("C14_DUMP").is_ok() {
        eprintln!("{logs}");
        for (label, text) in &seen.0 {
            eprintln!("== {label}\n{text}");
        }
    }
    for h in &hits {
        eprintln!("C14 VIOLATION {h}");
    }
    assert!(hits.is_empty(), "{} leaking texts", hits.len());
}

#[test]
fn sweep_memory() {
    sweep(&|_| MdkMemoryStorage::default(), &[]);
}

#[test]
fn sweep_sqlite_unencrypted_files() {
    let dir = tempfile::tempdir().unwrap();
    let path = dir.path().to_path_buf();
    sweep(
        &move |who| MdkSqliteStorage::new_unencrypted(path.join(format!("{who}.db"))).unwrap(),
        &[],
    );
}

#[test]
fn sweep_sqlite_encrypted_files() {
    let dir = tempfile::tempdir().unwrap();
    let path = dir.path().to_path_buf();
    let key = [0xa7u8; 32];
    sweep(
        &move |who| {
            MdkSqliteStorage::new_with_key(
                path.join(format!("{who}.db")),
                EncryptionConfig::new(key),
            )
            .unwrap()
        },
        &[("database key", key.to_vec())],
    );

    // key / file errors
    let dir = tempfile::tempdir().unwrap();
    let p = dir.path().join("k.db");
    let key = [0xa7u8; 32];
    let wrong = [0xb8u8; 32];
    let mut needles = Needles::default();
    needles.add("database key", &key);
    needles.add("wrong database key", &wrong);
    let capture = Capture::default();
    let subscriber = tracing_subscriber::fmt()
        .with_max_level(tracing::Level::TRACE)
        .with_ansi(false)
        .with_writer(capture.clone())
        .finish();
    let mut texts = Vec::new();
    tracing::subscriber::with_default(subscriber, || {
        drop(MdkSqliteStorage::new_with_key(&p, EncryptionConfig::new(key)).unwrap());
        let cfg = EncryptionConfig::new(wrong);
        texts.push(format!("{cfg:?}"));
        if let Err(e) = MdkSqliteStorage::new_with_key(&p, cfg) {
            texts.push(format!("{e}\n{e:?}"));
        }
        if let Err(e) = MdkSqliteStorage::new_unencrypted(&p) {
            texts.push(format!("{e}\n{e:?}"));
        }
        if let Err(e) = EncryptionConfig::from_slice(&key[..31]) {
            texts.push(format!("{e}\n{e:?}"));
        }
        let plain = dir.path().join("plain.db");
        drop(MdkSqliteStorage::new_unencrypted(&plain).unwrap());
        if let Err(e) = MdkSqliteStorage::new_with_key(&plain, EncryptionConfig::new(key)) {
            texts.push(format!("{e}\n{e:?}"));
        }
    });
    let logs = String::from_utf8_lossy(&capture.0.lock().unwrap()).into_owned();
    let mut hits = needles.hits("log", &logs);
    for t in &texts {
        hits.extend(needles.hits("key error", t));
    }
    for h in &hits {
        eprintln!("C14 VIOLATION {h}");
    }
    assert!(hits.is_empty());
}
