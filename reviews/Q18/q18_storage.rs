//! Q18 probe: storage-level differential test of `messages()` on both backends.

use std::collections::BTreeSet;

use mdk_memory_storage::MdkMemoryStorage;
use mdk_sqlite_storage::MdkSqliteStorage;
use mdk_storage_traits::groups::types::{Group, GroupState, SelfUpdateState};
use mdk_storage_traits::groups::{
    GroupStorage, MAX_MESSAGE_LIMIT, MessageSortOrder, Pagination,
};
use mdk_storage_traits::messages::MessageStorage;
use mdk_storage_traits::messages::types::{Message, MessageState};
use mdk_storage_traits::{GroupId, MdkStorageProvider};
use nostr::{EventId, Kind, PublicKey, Tags, Timestamp, UnsignedEvent};

fn group(id: &GroupId) -> Group {
    let mut n = [0u8; 32];
    n[..id.as_slice().len().min(32)].copy_from_slice(&id.as_slice()[..id.as_slice().len().min(32)]);
    Group {
        mls_group_id: id.clone(),
        nostr_group_id: n,
        name: "g".into(),
        description: "d".into(),
        image_hash: None,
        image_key: None,
        image_nonce: None,
        admin_pubkeys: BTreeSet::new(),
        last_message_id: None,
        last_message_at: None,
        last_message_processed_at: None,
        epoch: 0,
        state: GroupState::Active,
        self_update_state: SelfUpdateState::Required,
    }
}

fn msg(gid: &GroupId, id: [u8; 32], ca: u64, pa: u64, state: MessageState) -> Message {
    let pubkey =
        PublicKey::from_hex("8a9de562cbbed225b6ea0118dd3997a02df92c0bffd2224f71081a7450c3e549")
            .unwrap();
    let id = EventId::from_slice(&id).unwrap();
    Message {
        id,
        pubkey,
        kind: Kind::from(9u16),
        mls_group_id: gid.clone(),
        created_at: Timestamp::from(ca),
        processed_at: Timestamp::from(pa),
        content: format!("{ca}/{pa}"),
        tags: Tags::new(),
        event: UnsignedEvent::new(pubkey, Timestamp::from(ca), Kind::from(9u16), Tags::new(), format!("{ca}/{pa}")),
        wrapper_event_id: id,
        epoch: Some(1),
        state,
    }
}

struct Rng(u64);
impl Rng {
    fn next(&mut self) -> u64 {
        let mut x = self.0;
        x ^= x << 13;
        x ^= x >> 7;
        x ^= x << 17;
        self.0 = x;
        x
    }
}

fn keys(m: &[Message]) -> Vec<(u64, u64, String, String)> {
    m.iter()
        .map(|m| {
            (
                m.created_at.as_secs(),
                m.processed_at.as_secs(),
                m.id.to_hex(),
                m.state.to_string(),
            )
        })
        .collect()
}

fn run<A: MdkStorageProvider, B: MdkStorageProvider>(a: &A, b: &B, seed: u64) -> Vec<String> {
    let mut v = Vec::new();
    let gid = GroupId::from_slice(&[seed as u8, 2, 3, 4]);
    a.save_group(group(&gid)).unwrap();
    b.save_group(group(&gid)).unwrap();
    let mut rng = Rng(seed * 7919 + 1);
    let mut ids: Vec<[u8; 32]> = Vec::new();
    // ids differing in the first byte only / last byte only, incl. >= 0x80
    for x in [0u8, 1, 0x7f, 0x80, 0xff] {
        let mut i = [0x55u8; 32];
        i[0] = x;
        ids.push(i);
        let mut i = [0x55u8; 32];
        i[31] = x;
        ids.push(i);
    }
    for _ in 0..25 {
        let mut i = [0u8; 32];
        for c in i.iter_mut() {
            *c = rng.next() as u8;
        }
        ids.push(i);
    }
    let times = [0u64, 1, 100, 100, 100, 200, i64::MAX as u64];
    let states = [
        MessageState::Processed,
        MessageState::Created,
        MessageState::EpochInvalidated,
        MessageState::Deleted,
    ];
    // arbitrary arrival order, with re-saves
    for step in 0..80 {
        let id = ids[(rng.next() % ids.len() as u64) as usize];
        let ca = times[(rng.next() % times.len() as u64) as usize];
        let pa = times[(rng.next() % times.len() as u64) as usize];
        let st = states[(rng.next() % 4) as usize];
        let m = msg(&gid, id, ca, pa, st);
        let ra = a.save_message(m.clone());
        let rb = b.save_message(m);
        if ra.is_ok() != rb.is_ok() {
            v.push(format!("step {step}: save differs {ra:?} vs {rb:?}"));
        }
    }
    let full_a = a.messages(&gid, Some(Pagination::new(Some(MAX_MESSAGE_LIMIT), Some(0)))).unwrap();
    let n = full_a.len();
    for sort in [None, Some(MessageSortOrder::CreatedAtFirst), Some(MessageSortOrder::ProcessedAtFirst)] {
        let p = |limit: Option<usize>, offset: Option<usize>| Pagination { limit, offset, sort_order: sort };
        let fa = a.messages(&gid, Some(p(Some(MAX_MESSAGE_LIMIT), None))).unwrap();
        let fb = b.messages(&gid, Some(p(Some(MAX_MESSAGE_LIMIT), None))).unwrap();
        if fa != fb {
            v.push(format!("{sort:?}: full lists differ\n{:?}\n{:?}", keys(&fa), keys(&fb)));
        }
        // documented order
        for w in fa.windows(2) {
            let (x, y) = (&w[0], &w[1]);
            let ok = match sort {
                Some(MessageSortOrder::ProcessedAtFirst) => {
                    (x.processed_at, x.created_at, x.id) > (y.processed_at, y.created_at, y.id)
                }
                _ => (x.created_at, x.processed_at, x.id) > (y.created_at, y.processed_at, y.id),
            };
            if !ok {
                v.push(format!("{sort:?}: order broken"));
            }
        }
        for limit in [None, Some(0usize), Some(1), Some(2), Some(3), Some(n - 1), Some(n), Some(n + 1), Some(MAX_MESSAGE_LIMIT), Some(MAX_MESSAGE_LIMIT + 1), Some(usize::MAX)] {
            for offset in [None, Some(0usize), Some(1), Some(2), Some(n - 1), Some(n), Some(n + 1), Some(i64::MAX as usize), Some(usize::MAX)] {
                let ra = a.messages(&gid, Some(p(limit, offset)));
                let rb = b.messages(&gid, Some(p(limit, offset)));
                let l = limit.unwrap_or(1000);
                let in_range = (1..=MAX_MESSAGE_LIMIT).contains(&l);
                match (&ra, &rb) {
                    (Ok(x), Ok(y)) => {
                        if !in_range {
                            v.push(format!("{sort:?} limit {limit:?} accepted"));
                        }
                        let o = offset.unwrap_or(0).min(n);
                        let e = o.saturating_add(l).min(n);
                        if x != y || x[..] != fa[o..e] {
                            v.push(format!("{sort:?} limit {limit:?} offset {offset:?}: page wrong"));
                        }
                    }
                    (Err(_), Err(_)) => {
                        if in_range {
                            v.push(format!("{sort:?} limit {limit:?} refused"));
                        }
                    }
                    _ => v.push(format!("{sort:?} limit {limit:?} offset {offset:?}: backends differ")),
                }
            }
        }
        // limit = 1 with every offset partitions
        let mut acc = Vec::new();
        for o in 0..n + 2 {
            acc.extend(b.messages(&gid, Some(p(Some(1), Some(o)))).unwrap());
        }
        if acc != fa {
            v.push(format!("{sort:?}: single-message pages do not partition (sqlite)"));
        }
    }
    if a.messages(&gid, None).unwrap() != b.messages(&gid, None).unwrap() {
        v.push("None pagination differs".into());
    }
    for x in &v {
        eprintln!("VIOLATION {x}");
    }
    v
}

#[test]
fn q18_storage_differential() {
    let mut all = Vec::new();
    for seed in 1..=20u64 {
        let a = MdkMemoryStorage::default();
        let b = MdkSqliteStorage::new_unencrypted(":memory:").unwrap();
        all.extend(run(&a, &b, seed));
    }
    assert!(all.is_empty(), "{}", all.join("\n"));
}

/// created_at beyond the SQLite integer range: stored by one backend, refused by the other.
#[test]
fn q18_storage_created_at_beyond_i64() {
    let a = MdkMemoryStorage::default();
    let b = MdkSqliteStorage::new_unencrypted(":memory:").unwrap();
    let gid = GroupId::from_slice(&[9, 9, 9]);
    a.save_group(group(&gid)).unwrap();
    b.save_group(group(&gid)).unwrap();
    let m = msg(&gid, [7u8; 32], 1u64 << 63, 10, MessageState::Processed);
    let ra = a.save_message(m.clone());
    let rb = b.save_message(m);
    eprintln!("memory: {ra:?}\nsqlite: {rb:?}");
    assert_eq!(ra.is_ok(), rb.is_ok(), "backends disagree on storing created_at = 2^63");
}
