//! Q18 probe: last-message pointer vs. listing, through MDK, on both backends.
#![allow(dead_code)]

use std::sync::{Arc, Mutex};

use mdk_core::MDK;
use mdk_core::callback::{MdkCallback, RollbackInfo};
use mdk_core::groups::NostrGroupConfigData;
use mdk_core::messages::MessageProcessingResult;
use mdk_memory_storage::MdkMemoryStorage;
use mdk_sqlite_storage::MdkSqliteStorage;
use mdk_storage_traits::groups::{MessageSortOrder, Pagination};
use mdk_storage_traits::messages::types::{Message, MessageState};
use mdk_storage_traits::{GroupId, MdkStorageProvider};
use nostr::{Event, EventBuilder, Keys, Kind, RelayUrl, Timestamp, UnsignedEvent};

#[derive(Debug, Default)]
pub struct Cb {
    pub rollbacks: Mutex<Vec<RollbackInfo>>,
}
impl MdkCallback for Cb {
    fn on_rollback(&self, info: &RollbackInfo) {
        self.rollbacks.lock().unwrap().push(info.clone());
    }
}

pub fn kp_event<S: MdkStorageProvider>(mdk: &MDK<S>, keys: &Keys) -> Event {
    let relays = vec![RelayUrl::parse("wss://test.relay").unwrap()];
    let (kp_hex, tags, _) = mdk
        .create_key_package_for_event(&keys.public_key(), relays)
        .expect("kp");
    EventBuilder::new(Kind::MlsKeyPackage, kp_hex)
        .tags(tags)
        .sign_with_keys(keys)
        .unwrap()
}

pub fn config(admins: Vec<nostr::PublicKey>) -> NostrGroupConfigData {
    NostrGroupConfigData::new(
        "g".to_string(),
        "d".to_string(),
        None,
        None,
        None,
        vec![RelayUrl::parse("wss://test.relay").unwrap()],
        admins,
    )
}

pub fn rumor(keys: &Keys, content: &str, created_at: u64) -> UnsignedEvent {
    let mut r = EventBuilder::new(Kind::TextNote, content)
        .custom_created_at(Timestamp::from(created_at))
        .build(keys.public_key());
    r.ensure_id();
    r
}

/// All messages through pages of `page` size, default order.
pub fn all_messages<S: MdkStorageProvider>(
    mdk: &MDK<S>,
    gid: &GroupId,
    page: usize,
    sort: Option<MessageSortOrder>,
) -> Vec<Message> {
    let mut out = Vec::new();
    let mut off = 0usize;
    loop {
        let p = mdk
            .get_messages(
                gid,
                Some(Pagination {
                    limit: Some(page),
                    offset: Some(off),
                    sort_order: sort,
                }),
            )
            .expect("page");
        let n = p.len();
        out.extend(p);
        if n < page {
            break;
        }
        off += n;
    }
    out
}

/// Returns a list of violations found at this point.
pub fn check<S: MdkStorageProvider>(mdk: &MDK<S>, gid: &GroupId, label: &str) -> Vec<String> {
    let mut v = Vec::new();
    let full = mdk.get_messages(gid, None).expect("list");
    let again = mdk.get_messages(gid, None).expect("list");
    if full != again {
        v.push(format!("[{label}] two calls differ"));
    }
    // documented order
    for w in full.windows(2) {
        let a = (w[0].created_at, w[0].processed_at, w[0].id);
        let b = (w[1].created_at, w[1].processed_at, w[1].id);
        if a <= b {
            v.push(format!("[{label}] default order broken {a:?} then {b:?}"));
        }
    }
    for page in [1usize, 2, 3, 7] {
        let paged = all_messages(mdk, gid, page, None);
        if paged != full {
            v.push(format!("[{label}] pages of {page} do not partition the list"));
        }
    }
    let pa = all_messages(mdk, gid, 1000, Some(MessageSortOrder::ProcessedAtFirst));
    for w in pa.windows(2) {
        let a = (w[0].processed_at, w[0].created_at, w[0].id);
        let b = (w[1].processed_at, w[1].created_at, w[1].id);
        if a <= b {
            v.push(format!("[{label}] processed order broken"));
        }
    }
    for page in [1usize, 3] {
        if all_messages(mdk, gid, page, Some(MessageSortOrder::ProcessedAtFirst)) != pa {
            v.push(format!("[{label}] processed-at pages of {page} do not partition"));
        }
    }
    let expected = full
        .iter()
        .find(|m| m.state != MessageState::EpochInvalidated)
        .map(|m| (m.id, m.created_at, m.processed_at));
    let g = mdk.get_group(gid).unwrap().unwrap();
    let got_id = g.last_message_id;
    let got_at = g.last_message_at;
    let got_pa = g.last_message_processed_at;
    let exp_id = expected.map(|e| e.0);
    let exp_at = expected.map(|e| e.1);
    let exp_pa = expected.map(|e| e.2);
    if (got_id, got_at, got_pa) != (exp_id, exp_at, exp_pa) {
        let desc = |id: Option<nostr::EventId>| {
            id.map(|i| {
                full.iter()
                    .find(|m| m.id == i)
                    .map(|m| format!("{}({:?},ca={},pa={})", m.content, m.state, m.created_at.as_secs(), m.processed_at.as_secs()))
                    .unwrap_or_else(|| format!("<not stored {i}>"))
            })
        };
        v.push(format!(
            "[{label}] POINTER WRONG: pointer=({:?}, at={:?}, pa={:?}) expected=({:?}, at={:?}, pa={:?}); listing={:?}",
            desc(got_id),
            got_at.map(|t| t.as_secs()),
            got_pa.map(|t| t.as_secs()),
            desc(exp_id),
            exp_at.map(|t| t.as_secs()),
            exp_pa.map(|t| t.as_secs()),
            full.iter()
                .map(|m| format!("{}:{:?}:ca{}:pa{}:e{:?}", m.content, m.state, m.created_at.as_secs(), m.processed_at.as_secs(), m.epoch))
                .collect::<Vec<_>>()
        ));
    }
    for x in &v {
        eprintln!("VIOLATION {x}");
    }
    v
}

pub fn better_worse<'a>(a: &'a Event, b: &'a Event) -> (&'a Event, &'a Event) {
    if a.created_at < b.created_at {
        (a, b)
    } else if b.created_at < a.created_at {
        (b, a)
    } else if a.id.to_hex() < b.id.to_hex() {
        (a, b)
    } else {
        (b, a)
    }
}

pub struct Trio<S: MdkStorageProvider> {
    pub alice: MDK<S>,
    pub bob: MDK<S>,
    pub carol: MDK<S>,
    pub ak: Keys,
    pub bk: Keys,
    pub ck: Keys,
    pub gid: GroupId,
    pub cb: Arc<Cb>,
}

pub fn trio<S: MdkStorageProvider>(mk: &dyn Fn() -> S) -> Trio<S> {
    let ak = Keys::generate();
    let bk = Keys::generate();
    let ck = Keys::generate();
    let cb = Arc::new(Cb::default());
    let alice = MDK::builder(mk()).with_callback(cb.clone()).build();
    let bob = MDK::new(mk());
    let carol = MDK::new(mk());
    let admins = vec![ak.public_key(), bk.public_key(), ck.public_key()];
    let bkp = kp_event(&bob, &bk);
    let ckp = kp_event(&carol, &ck);
    let res = alice
        .create_group(&ak.public_key(), vec![bkp, ckp], config(admins))
        .unwrap();
    let gid = res.group.mls_group_id.clone();
    alice.merge_pending_commit(&gid).unwrap();
    let w = bob
        .process_welcome(&nostr::EventId::all_zeros(), &res.welcome_rumors[0])
        .unwrap();
    bob.accept_welcome(&w).unwrap();
    let w = carol
        .process_welcome(&nostr::EventId::all_zeros(), &res.welcome_rumors[1])
        .unwrap();
    carol.accept_welcome(&w).unwrap();
    Trio {
        alice,
        bob,
        carol,
        ak,
        bk,
        ck,
        gid,
        cb,
    }
}

fn kind_of(r: &Result<MessageProcessingResult, mdk_core::Error>) -> String {
    match r {
        Ok(MessageProcessingResult::ApplicationMessage(m)) => format!("App({})", m.content),
        Ok(MessageProcessingResult::Commit { .. }) => "Commit".into(),
        Ok(MessageProcessingResult::Unprocessable { .. }) => "Unprocessable".into(),
        Ok(MessageProcessingResult::PreviouslyFailed) => "PreviouslyFailed".into(),
        Ok(_) => "Other".into(),
        Err(e) => format!("Err({e})"),
    }
}

/// Scenario A: ordering basics + commit race with messages on the losing branch.
fn scenario_race<S: MdkStorageProvider>(mk: &dyn Fn() -> S) -> Vec<String> {
    let mut viol = Vec::new();
    let t = trio(mk);
    let (alice, bob, carol, gid) = (&t.alice, &t.bob, &t.carol, &t.gid);
    viol.extend(check(alice, gid, "A0 empty"));

    // epoch 1 traffic
    let m0 = bob.create_message(gid, rumor(&t.bk, "m0", 1000)).unwrap();
    eprintln!("alice<-m0: {}", kind_of(&alice.process_message(&m0)));
    viol.extend(check(alice, gid, "A1 m0"));
    let a1 = alice.create_message(gid, rumor(&t.ak, "a1-older", 900)).unwrap();
    viol.extend(check(alice, gid, "A2 own older"));
    let _a2 = alice.create_message(gid, rumor(&t.ak, "a2-tie", 1000)).unwrap();
    viol.extend(check(alice, gid, "A3 own tie"));
    // own echo
    eprintln!("alice<-a1 echo: {}", kind_of(&alice.process_message(&a1)));
    viol.extend(check(alice, gid, "A4 echo"));
    // late message from carol, smaller created_at
    let c0 = carol.create_message(gid, rumor(&t.ck, "c0-late", 10)).unwrap();
    eprintln!("alice<-c0: {}", kind_of(&alice.process_message(&c0)));
    viol.extend(check(alice, gid, "A5 late"));
    // several ties from carol
    for i in 0..5 {
        let c = carol
            .create_message(gid, rumor(&t.ck, &format!("tie{i}"), 1000))
            .unwrap();
        alice.process_message(&c).unwrap();
        viol.extend(check(alice, gid, &format!("A6 tie{i}")));
    }

    // competing commits at epoch 1
    let bc = bob.self_update(gid).unwrap().evolution_event;
    let cc = carol.self_update(gid).unwrap().evolution_event;
    let (better, worse) = better_worse(&bc, &cc);
    let bob_is_worse = worse.id == bc.id;
    let (wmdk, wkeys, bmdk, bkeys) = if bob_is_worse {
        (bob, &t.bk, carol, &t.ck)
    } else {
        (carol, &t.ck, bob, &t.bk)
    };
    // committers apply their own commit through process_message (takes an epoch snapshot)
    eprintln!("W<-own commit: {}", kind_of(&wmdk.process_message(worse)));
    eprintln!("B<-own commit: {}", kind_of(&bmdk.process_message(better)));

    eprintln!("alice<-worse: {}", kind_of(&alice.process_message(worse)));
    viol.extend(check(alice, gid, "A7 worse applied"));

    // traffic on the losing branch (epoch 2 of W)
    let m1_rumor = rumor(wkeys, "m1-losing", 2000);
    let m1 = wmdk.create_message(gid, m1_rumor.clone()).unwrap();
    eprintln!("alice<-m1: {}", kind_of(&alice.process_message(&m1)));
    viol.extend(check(alice, gid, "A8 m1 on losing branch"));
    let a3_rumor = rumor(&t.ak, "a3-losing-own", 3000);
    let a3 = alice.create_message(gid, a3_rumor.clone()).unwrap();
    viol.extend(check(alice, gid, "A9 own on losing branch"));
    // a message of the winning branch arrives while alice is on the losing one
    let w1 = bmdk.create_message(gid, rumor(bkeys, "w1-winning-early", 2500)).unwrap();
    eprintln!("alice<-w1 (wrong branch): {}", kind_of(&alice.process_message(&w1)));
    viol.extend(check(alice, gid, "A10 undecryptable"));

    // the better commit arrives: rollback
    eprintln!("alice<-better: {}", kind_of(&alice.process_message(better)));
    eprintln!("rollbacks: {}", t.cb.rollbacks.lock().unwrap().len());
    viol.extend(check(alice, gid, "A11 after rollback"));

    // retry of w1
    eprintln!("alice<-w1 retry: {}", kind_of(&alice.process_message(&w1)));
    viol.extend(check(alice, gid, "A12 retry w1"));

    // re-delivery of invalidated wrappers
    eprintln!("alice<-m1 again: {}", kind_of(&alice.process_message(&m1)));
    viol.extend(check(alice, gid, "A13 m1 redelivered"));
    eprintln!("alice<-a3 echo: {}", kind_of(&alice.process_message(&a3)));
    viol.extend(check(alice, gid, "A14 a3 echo after rollback"));

    // the loser converges and re-sends the same rumor in the winning branch
    eprintln!("W<-better: {}", kind_of(&wmdk.process_message(better)));
    match wmdk.create_message(gid, m1_rumor.clone()) {
        Ok(m1b) => {
            eprintln!("alice<-m1 resent: {}", kind_of(&alice.process_message(&m1b)));
            viol.extend(check(alice, gid, "A15 m1 resent"));
            viol.extend(check(wmdk, gid, "A15w loser own list"));
        }
        Err(e) => eprintln!("W resend failed: {e}"),
    }
    // alice re-sends her own invalidated message
    match alice.create_message(gid, a3_rumor.clone()) {
        Ok(_) => viol.extend(check(alice, gid, "A16 a3 resent")),
        Err(e) => eprintln!("alice resend failed: {e}"),
    }
    // new, older message afterwards
    let b9 = bmdk.create_message(gid, rumor(bkeys, "b9", 5)).unwrap();
    eprintln!("alice<-b9: {}", kind_of(&alice.process_message(&b9)));
    viol.extend(check(alice, gid, "A17 end"));
    viol.extend(check(bmdk, gid, "A17b winner own list"));
    viol
}

fn mem() -> MdkMemoryStorage {
    MdkMemoryStorage::default()
}
fn sq() -> MdkSqliteStorage {
    MdkSqliteStorage::new_unencrypted(":memory:").unwrap()
}

#[test]
fn q18_race_memory() {
    let v = scenario_race(&mem);
    assert!(v.is_empty(), "{} violations:\n{}", v.len(), v.join("\n"));
}

#[test]
fn q18_race_sqlite() {
    let v = scenario_race(&sq);
    assert!(v.is_empty(), "{} violations:\n{}", v.len(), v.join("\n"));
}

// ---------------------------------------------------------------------------------------------
// Randomised histories
// ---------------------------------------------------------------------------------------------
struct Rng(u64);
impl Rng {
    fn next(&mut self) -> u64 {
        let mut x = self.0;
        x ^= x << 13;
        x ^= x >> 7;
        x ^= x << 17;
        self.0 = x;
        x
    }
    fn below(&mut self, n: u64) -> u64 {
        self.next() % n
    }
    fn chance(&mut self, pct: u64) -> bool {
        self.below(100) < pct
    }
}

fn fuzz<S: MdkStorageProvider>(mk: &dyn Fn() -> S, seed: u64, rounds: usize) -> Vec<String> {
    let mut rng = Rng(seed.wrapping_mul(0x9E3779B97F4A7C15) | 1);
    let mut viol = Vec::new();
    let t = trio(mk);
    let gid = &t.gid;
    let mut inbox: Vec<Event> = Vec::new(); // for alice
    let mut seen: Vec<Event> = Vec::new(); // already delivered once (for re-delivery)
    let mut sent_rumors: Vec<(usize, UnsignedEvent)> = Vec::new();
    let mut n = 0u32;
    let times = [100u64, 100, 200, 200, 300, 50];
    for round in 0..rounds {
        // traffic
        for _ in 0..rng.below(4) {
            let who = rng.below(3) as usize;
            n += 1;
            let ca = times[rng.below(times.len() as u64) as usize];
            let (mdk, keys) = match who {
                0 => (&t.alice, &t.ak),
                1 => (&t.bob, &t.bk),
                _ => (&t.carol, &t.ck),
            };
            // sometimes re-send an earlier rumor of the same author
            let r = if rng.chance(25) && sent_rumors.iter().any(|(w, _)| *w == who) {
                let own: Vec<_> = sent_rumors.iter().filter(|(w, _)| *w == who).collect();
                own[rng.below(own.len() as u64) as usize].1.clone()
            } else {
                let r = rumor(keys, &format!("r{round}n{n}w{who}"), ca);
                sent_rumors.push((who, r.clone()));
                r
            };
            match mdk.create_message(gid, r) {
                Ok(ev) => {
                    if who == 0 {
                        viol.extend(check(&t.alice, gid, &format!("s{seed} r{round} alice create")));
                    }
                    inbox.push(ev);
                }
                Err(e) => eprintln!("create_message by {who} failed: {e}"),
            }
        }
        // commits
        let dice = rng.below(100);
        if dice < 35 {
            // race
            let bc = t.bob.self_update(gid);
            let cc = t.carol.self_update(gid);
            if let (Ok(bc), Ok(cc)) = (bc, cc) {
                let (bc, cc) = (bc.evolution_event, cc.evolution_event);
                let (better, worse) = better_worse(&bc, &cc);
                let bob_is_worse = worse.id == bc.id;
                let (w, wk, b) = if bob_is_worse {
                    (&t.bob, &t.bk, &t.carol)
                } else {
                    (&t.carol, &t.ck, &t.bob)
                };
                let _ = w.process_message(worse);
                let _ = b.process_message(better);
                // losing-branch traffic
                for _ in 0..rng.below(3) {
                    n += 1;
                    let r = rumor(wk, &format!("lose r{round}n{n}"), times[rng.below(6) as usize]);
                    sent_rumors.push((if bob_is_worse { 1 } else { 2 }, r.clone()));
                    if let Ok(ev) = w.create_message(gid, r) {
                        inbox.push(ev);
                    }
                }
                let _ = w.process_message(better);
                viol.extend(check(w, gid, &format!("s{seed} r{round} loser after rollback")));
                inbox.push(worse.clone());
                inbox.push(better.clone());
            }
        } else if dice < 55 {
            let (c, o) = if rng.chance(50) { (&t.bob, &t.carol) } else { (&t.carol, &t.bob) };
            if let Ok(u) = c.self_update(gid) {
                let _ = c.process_message(&u.evolution_event);
                let _ = o.process_message(&u.evolution_event);
                inbox.push(u.evolution_event);
            }
        }
        // deliveries to alice: random order, random subset, duplicates
        let k = inbox.len();
        for i in (1..k).rev() {
            let j = rng.below(i as u64 + 1) as usize;
            inbox.swap(i, j);
        }
        let take = if k == 0 { 0 } else { rng.below(k as u64 + 1) as usize };
        let batch: Vec<Event> = inbox.drain(..take).collect();
        for ev in batch {
            let r = t.alice.process_message(&ev);
            let _ = r;
            viol.extend(check(&t.alice, gid, &format!("s{seed} r{round} alice process")));
            seen.push(ev);
        }
        if !seen.is_empty() && rng.chance(50) {
            let ev = seen[rng.below(seen.len() as u64) as usize].clone();
            let _ = t.alice.process_message(&ev);
            viol.extend(check(&t.alice, gid, &format!("s{seed} r{round} alice redelivery")));
        }
        if viol.len() > 3 {
            break;
        }
    }
    // drain
    for ev in inbox.drain(..) {
        let _ = t.alice.process_message(&ev);
        viol.extend(check(&t.alice, gid, &format!("s{seed} drain")));
    }
    eprintln!(
        "seed {seed}: alice rollbacks={} msgs={} epoch={}",
        t.cb.rollbacks.lock().unwrap().len(),
        t.alice.get_messages(gid, None).unwrap().len(),
        t.alice.get_group(gid).unwrap().unwrap().epoch
    );
    viol
}

#[test]
fn q18_fuzz_memory() {
    let mut all = Vec::new();
    for seed in 1..=30 {
        all.extend(fuzz(&mem, seed, 12));
    }
    assert!(all.is_empty(), "{} violations:\n{}", all.len(), all.join("\n"));
}

#[test]
fn q18_fuzz_sqlite() {
    let mut all = Vec::new();
    for seed in 1..=30 {
        all.extend(fuzz(&sq, seed, 12));
    }
    assert!(all.is_empty(), "{} violations:\n{}", all.len(), all.join("\n"));
}

// ---------------------------------------------------------------------------------------------
// Scenario B: removal, traffic while inactive, re-invitation, race after re-join
// ---------------------------------------------------------------------------------------------
fn scenario_reinvite<S: MdkStorageProvider>(mk: &dyn Fn() -> S) -> Vec<String> {
    let mut viol = Vec::new();
    let t = trio(mk);
    let (alice, bob, carol, gid) = (&t.alice, &t.bob, &t.carol, &t.gid);

    let m0 = bob.create_message(gid, rumor(&t.bk, "m0", 1000)).unwrap();
    alice.process_message(&m0).unwrap();
    let late = carol.create_message(gid, rumor(&t.ck, "late-before-removal", 5000)).unwrap();

    // a race first, so that the head gets invalidated once
    let bc = bob.self_update(gid).unwrap().evolution_event;
    let cc = carol.self_update(gid).unwrap().evolution_event;
    let (better, worse) = better_worse(&bc, &cc);
    let bob_is_worse = worse.id == bc.id;
    let (w, wk, b) = if bob_is_worse { (bob, &t.bk, carol) } else { (carol, &t.ck, bob) };
    w.process_message(worse).unwrap();
    b.process_message(better).unwrap();
    let lose = w.create_message(gid, rumor(wk, "losing-head", 9000)).unwrap();
    eprintln!("alice<-worse {}", kind_of(&alice.process_message(worse)));
    eprintln!("alice<-lose {}", kind_of(&alice.process_message(&lose)));
    viol.extend(check(alice, gid, "B1 losing head"));
    eprintln!("alice<-better {}", kind_of(&alice.process_message(better)));
    viol.extend(check(alice, gid, "B2 rolled back"));
    eprintln!("W<-better {}", kind_of(&w.process_message(better)));

    // bob removes alice
    let rm = bob.remove_members(gid, &[t.ak.public_key()]).unwrap().evolution_event;
    eprintln!("bob<-rm {}", kind_of(&bob.process_message(&rm)));
    eprintln!("carol<-rm {}", kind_of(&carol.process_message(&rm)));
    let after = carol.create_message(gid, rumor(&t.ck, "after-removal", 9500)).unwrap();
    eprintln!("alice<-rm {}", kind_of(&alice.process_message(&rm)));
    viol.extend(check(alice, gid, "B3 removed"));
    eprintln!("alice state {:?}", alice.get_group(gid).unwrap().unwrap().state);
    eprintln!("alice<-late {}", kind_of(&alice.process_message(&late)));
    viol.extend(check(alice, gid, "B4 late while inactive"));
    eprintln!("alice<-after {}", kind_of(&alice.process_message(&after)));
    viol.extend(check(alice, gid, "B5 undecryptable while inactive"));
    eprintln!("alice create while inactive: {:?}", alice.create_message(gid, rumor(&t.ak, "own-inactive", 9900)).map(|_| ()).map_err(|e| e.to_string()));
    viol.extend(check(alice, gid, "B6 own while inactive"));
    eprintln!("alice<-lose again {}", kind_of(&alice.process_message(&lose)));
    viol.extend(check(alice, gid, "B7"));

    // re-invitation
    let akp = kp_event(alice, &t.ak);
    let add = bob.add_members(gid, &[akp]).unwrap();
    eprintln!("bob<-add {}", kind_of(&bob.process_message(&add.evolution_event)));
    eprintln!("carol<-add {}", kind_of(&carol.process_message(&add.evolution_event)));
    let wr = &add.welcome_rumors.as_ref().unwrap()[0];
    let wel = alice
        .process_welcome(&nostr::EventId::from_slice(&[3u8; 32]).unwrap(), wr)
        .unwrap();
    viol.extend(check(alice, gid, "B8 re-invited (pending)"));
    alice.accept_welcome(&wel).unwrap();
    viol.extend(check(alice, gid, "B9 re-joined"));
    let n1 = carol.create_message(gid, rumor(&t.ck, "n1-older", 20)).unwrap();
    eprintln!("alice<-n1 {}", kind_of(&alice.process_message(&n1)));
    viol.extend(check(alice, gid, "B10 older after rejoin"));
    eprintln!("alice<-after (again) {}", kind_of(&alice.process_message(&after)));
    viol.extend(check(alice, gid, "B11"));
    let own = alice.create_message(gid, rumor(&t.ak, "own-rejoined", 1000)).unwrap();
    viol.extend(check(alice, gid, "B12 own tie"));
    eprintln!("alice<-own echo {}", kind_of(&alice.process_message(&own)));
    viol.extend(check(alice, gid, "B13"));

    // race after the re-join
    let bc = bob.self_update(gid).unwrap().evolution_event;
    let cc = carol.self_update(gid).unwrap().evolution_event;
    let (better, worse) = better_worse(&bc, &cc);
    let bob_is_worse = worse.id == bc.id;
    let (w, wk, b) = if bob_is_worse { (bob, &t.bk, carol) } else { (carol, &t.ck, bob) };
    w.process_message(worse).unwrap();
    b.process_message(better).unwrap();
    let lose = w.create_message(gid, rumor(wk, "losing-head-2", 99000)).unwrap();
    eprintln!("alice<-worse {}", kind_of(&alice.process_message(worse)));
    eprintln!("alice<-lose {}", kind_of(&alice.process_message(&lose)));
    viol.extend(check(alice, gid, "B14"));
    eprintln!("alice<-better {}", kind_of(&alice.process_message(better)));
    viol.extend(check(alice, gid, "B15 rolled back after rejoin"));
    eprintln!("rollbacks {}", t.cb.rollbacks.lock().unwrap().len());
    viol
}

#[test]
fn q18_reinvite_memory() {
    let v = scenario_reinvite(&mem);
    assert!(v.is_empty(), "{} violations:\n{}", v.len(), v.join("\n"));
}
#[test]
fn q18_reinvite_sqlite() {
    let v = scenario_reinvite(&sq);
    assert!(v.is_empty(), "{} violations:\n{}", v.len(), v.join("\n"));
}

// ---------------------------------------------------------------------------------------------
// Scenario C: a member sends a rumor whose created_at is beyond the signed 64-bit range
// ---------------------------------------------------------------------------------------------
fn listing_after_far_future<S: MdkStorageProvider>(mk: &dyn Fn() -> S) -> (Vec<String>, Option<String>, Vec<String>) {
    let ak = Keys::generate();
    let bk = Keys::generate();
    let alice = MDK::new(mk());
    let bob = MDK::new(MdkMemoryStorage::default());
    let akp = kp_event(&alice, &ak);
    let res = bob
        .create_group(&bk.public_key(), vec![akp], config(vec![bk.public_key()]))
        .unwrap();
    let gid = res.group.mls_group_id.clone();
    bob.merge_pending_commit(&gid).unwrap();
    let w = alice
        .process_welcome(&nostr::EventId::all_zeros(), &res.welcome_rumors[0])
        .unwrap();
    alice.accept_welcome(&w).unwrap();

    let e1 = bob.create_message(&gid, rumor(&bk, "normal", 1000)).unwrap();
    let e2 = bob.create_message(&gid, rumor(&bk, "far-future", 1u64 << 63)).unwrap();
    let r1 = kind_of(&alice.process_message(&e1));
    let r2 = kind_of(&alice.process_message(&e2));
    eprintln!("alice<-normal: {r1}; alice<-far-future: {r2}");
    let viol = check(&alice, &gid, "C far future");
    let list = alice
        .get_messages(&gid, None)
        .unwrap()
        .into_iter()
        .map(|m| m.content)
        .collect();
    let g = alice.get_group(&gid).unwrap().unwrap();
    let ptr = g
        .last_message_id
        .and_then(|id| alice.get_message(&gid, &id).unwrap())
        .map(|m| m.content);
    (list, ptr, viol)
}

#[test]
fn q18_far_future_backends_agree() {
    let (lm, pm, vm) = listing_after_far_future(&mem);
    let (ls, ps, vs) = listing_after_far_future(&sq);
    eprintln!("memory: listing={lm:?} pointer={pm:?}\nsqlite: listing={ls:?} pointer={ps:?}");
    assert!(vm.is_empty() && vs.is_empty());
    assert_eq!((lm, pm), (ls, ps), "same history, different listing / last message on the two backends");
}

// ---------------------------------------------------------------------------------------------
// Scenario D: own message sent twice (before and after a commit that later loses the race);
// the echo of the first copy arrives after the rollback.
// ---------------------------------------------------------------------------------------------
fn scenario_resend_echo<S: MdkStorageProvider>(mk: &dyn Fn() -> S) -> Vec<String> {
    let mut viol = Vec::new();
    let t = trio(mk);
    let (alice, bob, carol, gid) = (&t.alice, &t.bob, &t.carol, &t.gid);

    let m0 = bob.create_message(gid, rumor(&t.bk, "m0-old", 1000)).unwrap();
    eprintln!("alice<-m0: {}", kind_of(&alice.process_message(&m0)));
    // own message, first copy, epoch N
    let r = rumor(&t.ak, "own-R", 2000);
    let w1 = alice.create_message(gid, r.clone()).unwrap();
    viol.extend(check(alice, gid, "D1 own sent"));

    // competing commits
    let bc = bob.self_update(gid).unwrap().evolution_event;
    let cc = carol.self_update(gid).unwrap().evolution_event;
    let (better, worse) = better_worse(&bc, &cc);
    eprintln!("alice<-worse: {}", kind_of(&alice.process_message(worse)));
    // the app sends the same rumor again (e.g. the first publish seemed to fail)
    let _w2 = alice.create_message(gid, r.clone()).unwrap();
    viol.extend(check(alice, gid, "D2 own re-sent in the next epoch"));
    eprintln!("alice<-better: {}", kind_of(&alice.process_message(better)));
    eprintln!("rollbacks: {}", t.cb.rollbacks.lock().unwrap().len());
    viol.extend(check(alice, gid, "D3 after rollback"));
    // the relay echoes the first copy
    eprintln!("alice<-w1 echo: {}", kind_of(&alice.process_message(&w1)));
    viol.extend(check(alice, gid, "D4 echo of the first copy"));
    viol
}

#[test]
fn q18_resend_echo_memory() {
    let v = scenario_resend_echo(&mem);
    assert!(v.is_empty(), "{} violations:\n{}", v.len(), v.join("\n"));
}
#[test]
fn q18_resend_echo_sqlite() {
    let v = scenario_resend_echo(&sq);
    assert!(v.is_empty(), "{} violations:\n{}", v.len(), v.join("\n"));
}
