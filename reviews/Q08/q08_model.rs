//! Q08 / C08: the stored group record mirrors the MLS state and routes events to it.
//!
//! Randomised model run: several clients, several groups, random interleavings of local
//! operations and deliveries, the mirror check after every single step, both backends.
//!
//! Run with: cargo test -p mdk-core --offline --features debug-examples --test q08_model -- --nocapture

#![cfg(feature = "debug-examples")]
#![allow(dead_code)]

use std::collections::{BTreeSet, HashMap, HashSet};

use mdk_core::prelude::*;
use mdk_memory_storage::MdkMemoryStorage;
use mdk_sqlite_storage::MdkSqliteStorage;
use mdk_storage_traits::groups::GroupStorage as _;
use mdk_storage_traits::groups::types::GroupState;
use nostr::{Event, EventBuilder, EventId, Keys, Kind, PublicKey, RelayUrl, UnsignedEvent};
use openmls_traits::OpenMlsProvider;

pub struct Rng(u64);
impl Rng {
    pub fn new(seed: u64) -> Self {
        Rng(seed.wrapping_mul(0x9E3779B97F4A7C15) | 1)
    }
    pub fn next(&mut self) -> u64 {
        let mut x = self.0;
        x ^= x >> 12;
        x ^= x << 25;
        x ^= x >> 27;
        self.0 = x;
        x.wrapping_mul(0x2545F4914F6CDD1D)
    }
    pub fn below(&mut self, n: usize) -> usize {
        (self.next() % (n as u64)) as usize
    }
    pub fn chance(&mut self, pct: u64) -> bool {
        self.next() % 100 < pct
    }
    pub fn bytes32(&mut self) -> [u8; 32] {
        let mut b = [0u8; 32];
        for c in b.chunks_mut(8) {
            c.copy_from_slice(&self.next().to_le_bytes());
        }
        b
    }
    pub fn bytes12(&mut self) -> [u8; 12] {
        let mut b = [0u8; 12];
        let x = self.bytes32();
        b.copy_from_slice(&x[..12]);
        b
    }
}

pub fn key_package_event<S: MdkStorageProvider>(mdk: &MDK<S>, keys: &Keys) -> Event {
    let relays = vec![RelayUrl::parse("wss://test.relay").unwrap()];
    let (kp, tags, _) = mdk
        .create_key_package_for_event(&keys.public_key(), relays)
        .expect("key package");
    EventBuilder::new(Kind::MlsKeyPackage, kp)
        .tags(tags)
        .sign_with_keys(keys)
        .expect("sign")
}

/// Compare the stored record of every Active group of this client with its MLS state.
/// Returns the list of differences (empty = property holds).
pub fn mirror_diffs<S: MdkStorageProvider>(who: &str, mdk: &MDK<S>) -> Vec<String> {
    let mut out = Vec::new();
    let groups = match mdk.get_groups() {
        Ok(g) => g,
        Err(e) => return vec![format!("{who}: get_groups failed: {e}")],
    };
    for g in groups {
        if g.state != GroupState::Active {
            // reverse direction: a group this client is an active MLS member of must not be
            // recorded as Inactive / Pending
            if let Ok(Some(m)) = mdk.load_mls_group(&g.mls_group_id)
                && m.is_active()
                && m.own_leaf().is_some()
                && std::env::var("Q08_REVERSE").is_ok()
            {
                out.push(format!(
                    "{who}/{}: MLS group active (epoch {}) but record state {:?} (record epoch {})",
                    &hex::encode(g.mls_group_id.as_slice())[..8],
                    m.epoch().as_u64(),
                    g.state,
                    g.epoch
                ));
            }
            continue;
        }
        let gid = hex::encode(g.mls_group_id.as_slice());
        let gid = &gid[..8];
        let mls = match mdk.load_mls_group(&g.mls_group_id) {
            Ok(Some(m)) => m,
            Ok(None) => {
                out.push(format!("{who}/{gid}: Active record without MLS group"));
                continue;
            }
            Err(e) => {
                out.push(format!("{who}/{gid}: load_mls_group failed: {e}"));
                continue;
            }
        };
        if !mls.is_active() {
            out.push(format!("{who}/{gid}: record Active but MLS group is not active"));
            continue;
        }
        let ext = match NostrGroupDataExtension::from_group(&mls) {
            Ok(e) => e,
            Err(e) => {
                out.push(format!("{who}/{gid}: extension unreadable: {e}"));
                continue;
            }
        };
        if g.epoch != mls.epoch().as_u64() {
            out.push(format!(
                "{who}/{gid}: epoch record={} mls={}",
                g.epoch,
                mls.epoch().as_u64()
            ));
        }
        if g.name != ext.name {
            out.push(format!("{who}/{gid}: name record={:?} mls={:?}", g.name, ext.name));
        }
        if g.description != ext.description {
            out.push(format!(
                "{who}/{gid}: description record={:?} mls={:?}",
                g.description, ext.description
            ));
        }
        if g.admin_pubkeys != ext.admins {
            out.push(format!(
                "{who}/{gid}: admins record={:?} mls={:?}",
                g.admin_pubkeys, ext.admins
            ));
        }
        if g.nostr_group_id != ext.nostr_group_id {
            out.push(format!(
                "{who}/{gid}: nostr_group_id record={} mls={}",
                hex::encode(g.nostr_group_id),
                hex::encode(ext.nostr_group_id)
            ));
        }
        if g.image_hash != ext.image_hash {
            out.push(format!(
                "{who}/{gid}: image_hash record={:?} mls={:?}",
                g.image_hash, ext.image_hash
            ));
        }
        let rk: Option<[u8; 32]> = g.image_key.as_ref().map(|k| **k);
        if rk != ext.image_key {
            out.push(format!("{who}/{gid}: image_key differs"));
        }
        let rn: Option<[u8; 12]> = g.image_nonce.as_ref().map(|k| **k);
        if rn != ext.image_nonce {
            out.push(format!("{who}/{gid}: image_nonce differs"));
        }
        match mdk.get_relays(&g.mls_group_id) {
            Ok(relays) => {
                let a: BTreeSet<String> = relays.iter().map(|r| r.to_string()).collect();
                let b: BTreeSet<String> = ext.relays.iter().map(|r| r.to_string()).collect();
                if relays != ext.relays || a != b {
                    out.push(format!("{who}/{gid}: relays record={a:?} mls={b:?}"));
                }
            }
            Err(e) => out.push(format!("{who}/{gid}: get_relays failed: {e}")),
        }
        // routing: the id in force leads to this group, with the same record
        match mdk
            .provider
            .storage()
            .find_group_by_nostr_group_id(&ext.nostr_group_id)
        {
            Ok(Some(found)) => {
                if found.mls_group_id != g.mls_group_id {
                    out.push(format!(
                        "{who}/{gid}: id in force routes to another group {}",
                        hex::encode(found.mls_group_id.as_slice())
                    ));
                } else if found != g {
                    out.push(format!(
                        "{who}/{gid}: by-nostr-id record differs from by-mls-id record: {:?} vs {:?}",
                        found, g
                    ));
                }
            }
            Ok(None) => out.push(format!("{who}/{gid}: id in force routes to nothing")),
            Err(e) => out.push(format!("{who}/{gid}: find by nostr id failed: {e}")),
        }
    }
    out
}

pub static ROLLBACKS: std::sync::atomic::AtomicUsize = std::sync::atomic::AtomicUsize::new(0);

#[derive(Debug)]
pub struct CountRollbacks;
impl mdk_core::callback::MdkCallback for CountRollbacks {
    fn on_rollback(&self, _info: &mdk_core::callback::RollbackInfo) {
        ROLLBACKS.fetch_add(1, std::sync::atomic::Ordering::SeqCst);
    }
}

pub fn build_mdk<S: MdkStorageProvider>(storage: S) -> MDK<S> {
    MDK::builder(storage)
        .with_callback(std::sync::Arc::new(CountRollbacks))
        .build()
}

pub struct World<S: MdkStorageProvider> {
    pub can_restart: bool,
    pub names: Vec<String>,
    pub keys: Vec<Keys>,
    pub mdks: Vec<MDK<S>>,
    /// all published kind-445 events per MLS group
    pub log: HashMap<GroupId, Vec<Event>>,
    pub groups: Vec<GroupId>,
    /// welcomes in flight: (client, rumor)
    pub welcomes: Vec<(usize, UnsignedEvent)>,
    pub delivered: Vec<HashSet<EventId>>,
    pub id_pool: Vec<[u8; 32]>,
    pub trace: Vec<String>,
    pub wrapper_counter: u64,
}

const RELAY_POOL: &[&str] = &[
    "wss://relay.one",
    "wss://relay.one/",
    "wss://Relay.One",
    "wss://relay.two/path",
    "wss://relay.two/path/",
    "ws://localhost:8080",
    "wss://relay.three:443",
    "wss://relay.four/?q=1",
];

impl<S: MdkStorageProvider> World<S> {
    pub fn new(n: usize, mk: &mut dyn FnMut(usize) -> S) -> Self {
        let mut names = vec![];
        let mut keys = vec![];
        let mut mdks = vec![];
        let mut delivered = vec![];
        for i in 0..n {
            names.push(format!("c{i}"));
            keys.push(Keys::generate());
            mdks.push(build_mdk(mk(i)));
            delivered.push(HashSet::new());
        }
        World {
            can_restart: false,
            names,
            keys,
            mdks,
            log: HashMap::new(),
            groups: vec![],
            welcomes: vec![],
            delivered,
            id_pool: vec![],
            trace: vec![],
            wrapper_counter: 1,
        }
    }

    pub fn pk(&self, i: usize) -> PublicKey {
        self.keys[i].public_key()
    }

    fn wrapper_id(&mut self) -> EventId {
        self.wrapper_counter += 1;
        let mut b = [0u8; 32];
        b[..8].copy_from_slice(&self.wrapper_counter.to_le_bytes());
        EventId::from_byte_array(b)
    }

    pub fn check(&self, step: usize) -> Vec<String> {
        let mut all = vec![];
        for (i, mdk) in self.mdks.iter().enumerate() {
            for d in mirror_diffs(&self.names[i], mdk) {
                all.push(format!("step {step}: {d}"));
            }
        }
        all
    }

    fn active_groups_of(&self, c: usize) -> Vec<GroupId> {
        self.mdks[c]
            .get_groups()
            .unwrap_or_default()
            .into_iter()
            .filter(|g| g.state == GroupState::Active)
            .map(|g| g.mls_group_id)
            .collect()
    }

    fn publish(&mut self, gid: &GroupId, ev: Event, author: usize) {
        self.delivered[author].insert(ev.id); // author usually does not need own event
        self.log.entry(gid.clone()).or_default().push(ev);
    }

    fn after_commit(&mut self, rng: &mut Rng, c: usize, gid: &GroupId, res: UpdateGroupResult) {
        let publish = rng.chance(85);
        if publish {
            self.publish(gid, res.evolution_event.clone(), c);
            if rng.chance(25) {
                // the author also sees its own echo later
                self.delivered[c].remove(&res.evolution_event.id);
            }
        }
        let r = rng.below(100);
        if r < 70 {
            let x = self.mdks[c].merge_pending_commit(gid);
            self.trace.push(format!("  {} merge -> {:?}", self.names[c], x.is_ok()));
            if x.is_ok()
                && publish
                && let Some(w) = res.welcome_rumors
            {
                for rumor in w {
                    // find the addressee by p tag? welcome rumors are built per key package
                    // event in order; deliver to everybody able to open it
                    for t in 0..self.mdks.len() {
                        self.welcomes.push((t, rumor.clone()));
                    }
                }
            }
        } else if r < 85 {
            let x = self.mdks[c].clear_pending_commit(gid);
            self.trace.push(format!("  {} clear -> {:?}", self.names[c], x.is_ok()));
        } else {
            self.trace.push(format!("  {} leaves commit pending", self.names[c]));
        }
    }

    pub fn step(&mut self, rng: &mut Rng, mk: &mut dyn FnMut(usize) -> S) {
        let n = self.mdks.len();
        let c = rng.below(n);
        let op = rng.below(100);
        if self.can_restart && rng.chance(4) {
            self.mdks[c] = build_mdk(mk(c));
            self.trace.push(format!("{} RESTART", self.names[c]));
            return;
        }
        let my_groups = self.active_groups_of(c);
        if (op < 8 && self.groups.len() < max_groups()) || self.groups.is_empty() {
            // create group with 0..2 others
            let mut others: Vec<usize> = (0..n).filter(|&i| i != c).collect();
            let k = rng.below(3).min(others.len());
            let mut members = vec![];
            for _ in 0..k {
                let i = rng.below(others.len());
                members.push(others.remove(i));
            }
            let mut admins = vec![self.pk(c)];
            for &m in &members {
                if rng.chance(50) {
                    admins.push(self.pk(m));
                }
            }
            let kps: Vec<Event> = members
                .iter()
                .map(|&m| key_package_event(&self.mdks[m], &self.keys[m]))
                .collect();
            let relays = self.random_relays(rng);
            let (ih, ik, inn) = if rng.chance(50) {
                (Some(rng.bytes32()), Some(rng.bytes32()), Some(rng.bytes12()))
            } else {
                (None, None, None)
            };
            let cfg = NostrGroupConfigData::new(
                format!("g{}", self.groups.len()),
                "d".into(),
                ih,
                ik,
                inn,
                relays,
                admins,
            );
            match self.mdks[c].create_group(&self.pk(c), kps, cfg) {
                Ok(res) => {
                    let gid = res.group.mls_group_id.clone();
                    self.trace.push(format!(
                        "{} create_group {} members {:?}",
                        self.names[c],
                        hex::encode(gid.as_slice()),
                        members
                    ));
                    self.groups.push(gid.clone());
                    self.id_pool.push(res.group.nostr_group_id);
                    self.log.entry(gid).or_default();
                    for rumor in res.welcome_rumors {
                        for t in 0..n {
                            self.welcomes.push((t, rumor.clone()));
                        }
                    }
                }
                Err(e) => self.trace.push(format!("{} create_group failed {e}", self.names[c])),
            }
            return;
        }
        if op < 20 && !self.welcomes.is_empty() {
            let i = rng.below(self.welcomes.len());
            let (t, rumor) = if rng.chance(80) {
                self.welcomes.remove(i)
            } else {
                self.welcomes[i].clone()
            };
            let wid = self.wrapper_id();
            match self.mdks[t].process_welcome(&wid, &rumor) {
                Ok(w) => {
                    let r = rng.below(100);
                    if r < 70 {
                        let x = self.mdks[t].accept_welcome(&w);
                        self.trace
                            .push(format!("{} accept_welcome -> {:?}", self.names[t], x.is_ok()));
                    } else if r < 85 {
                        let x = self.mdks[t].decline_welcome(&w);
                        self.trace
                            .push(format!("{} decline_welcome -> {:?}", self.names[t], x.is_ok()));
                    } else {
                        self.trace.push(format!("{} keeps welcome pending", self.names[t]));
                        // may accept later
                        if rng.chance(60) {
                            self.welcomes.push((t, rumor));
                        }
                    }
                }
                Err(_) => {}
            }
            return;
        }
        if op < 60 {
            // deliver an event to c
            let gids: Vec<GroupId> = self.mdks[c]
                .get_groups()
                .unwrap_or_default()
                .into_iter()
                .map(|g| g.mls_group_id)
                .collect();
            if gids.is_empty() {
                return;
            }
            let gid = &gids[rng.below(gids.len())];
            let evs = self.log.get(gid).cloned().unwrap_or_default();
            if evs.is_empty() {
                return;
            }
            // prefer the oldest undelivered, sometimes random / duplicate
            let undelivered: Vec<&Event> = evs
                .iter()
                .filter(|e| !self.delivered[c].contains(&e.id))
                .collect();
            let ev = if !undelivered.is_empty() && rng.chance(85) {
                if rng.chance(75) {
                    undelivered[0].clone()
                } else {
                    undelivered[rng.below(undelivered.len())].clone()
                }
            } else {
                evs[rng.below(evs.len())].clone()
            };
            self.delivered[c].insert(ev.id);
            let r = self.mdks[c].process_message(&ev);
            let desc = match &r {
                Ok(MessageProcessingResult::Proposal(_)) => "Proposal(auto-commit)".to_string(),
                Ok(x) => format!("{x:?}").chars().take(40).collect(),
                Err(e) => format!("Err({e})").chars().take(60).collect(),
            };
            self.trace.push(format!(
                "{} process_message {} -> {}",
                self.names[c],
                &ev.id.to_hex()[..8],
                desc
            ));
            if let Ok(MessageProcessingResult::Proposal(res)) = r {
                let gid = res.mls_group_id.clone();
                self.after_commit(rng, c, &gid, res);
            }
            return;
        }
        if my_groups.is_empty() {
            return;
        }
        let gid = my_groups[rng.below(my_groups.len())].clone();
        let sub = rng.below(100);
        if sub < 15 {
            // add a member
            let t = rng.below(n);
            if t == c {
                return;
            }
            let kp = key_package_event(&self.mdks[t], &self.keys[t]);
            let r = self.mdks[c].add_members(&gid, &[kp]);
            self.trace
                .push(format!("{} add_members {} -> {:?}", self.names[c], t, r.is_ok()));
            if let Ok(res) = r {
                self.after_commit(rng, c, &gid, res);
            }
        } else if sub < 27 {
            let t = rng.below(n);
            if t == c {
                return;
            }
            let r = self.mdks[c].remove_members(&gid, &[self.pk(t)]);
            self.trace
                .push(format!("{} remove_members {} -> {:?}", self.names[c], t, r.is_ok()));
            if let Ok(res) = r {
                self.after_commit(rng, c, &gid, res);
            }
        } else if sub < 65 {
            let mut upd = NostrGroupDataUpdate::new();
            let mut what = vec![];
            if rng.chance(40) {
                upd = upd.name(format!("n{}", rng.below(1000)));
                what.push("name");
            }
            if rng.chance(30) {
                upd = upd.description(format!("d{}", rng.below(1000)));
                what.push("desc");
            }
            if rng.chance(35) {
                upd = upd.relays(self.random_relays(rng));
                what.push("relays");
            }
            if rng.chance(30) {
                match rng.below(4) {
                    0 => {
                        upd = upd.image_hash(None);
                        what.push("img-clear");
                    }
                    1 => {
                        upd = upd
                            .image_hash(Some(rng.bytes32()))
                            .image_key(Some(rng.bytes32()))
                            .image_nonce(Some(rng.bytes12()))
                            .image_upload_key(Some(rng.bytes32()));
                        what.push("img-set");
                    }
                    2 => {
                        upd = upd.image_key(None);
                        what.push("img-key-none");
                    }
                    _ => {
                        upd = upd.image_nonce(Some(rng.bytes12()));
                        what.push("img-nonce");
                    }
                }
            }
            if rng.chance(30) {
                let members: Vec<PublicKey> = self.mdks[c]
                    .get_members(&gid)
                    .map(|m| m.into_iter().collect())
                    .unwrap_or_default();
                let mut admins = vec![];
                for m in &members {
                    if rng.chance(50) {
                        admins.push(*m);
                    }
                }
                if rng.chance(70) {
                    admins.push(self.pk(c));
                }
                if rng.chance(30) && !admins.is_empty() {
                    admins.push(admins[0]); // duplicate
                }
                if !admins.is_empty() {
                    upd = upd.admins(admins);
                    what.push("admins");
                }
            }
            if rng.chance(rot_pct()) {
                let id = if rng.chance(45) && !self.id_pool.is_empty() {
                    self.id_pool[rng.below(self.id_pool.len())]
                } else {
                    let id = rng.bytes32();
                    self.id_pool.push(id);
                    id
                };
                upd = upd.nostr_group_id(id);
                what.push("id");
            }
            let r = self.mdks[c].update_group_data(&gid, upd);
            self.trace.push(format!(
                "{} update_group_data {:?} -> {:?}",
                self.names[c],
                what,
                r.as_ref().map(|_| ()).map_err(|e| e.to_string())
            ));
            if let Ok(res) = r {
                self.after_commit(rng, c, &gid, res);
            }
        } else if sub < 75 {
            let r = self.mdks[c].self_update(&gid);
            self.trace
                .push(format!("{} self_update -> {:?}", self.names[c], r.is_ok()));
            if let Ok(res) = r {
                self.after_commit(rng, c, &gid, res);
            }
        } else if sub < 82 {
            let r = self.mdks[c].leave_group(&gid);
            self.trace
                .push(format!("{} leave_group -> {:?}", self.names[c], r.is_ok()));
            if let Ok(res) = r {
                self.publish(&gid, res.evolution_event, c);
            }
        } else if sub < 90 {
            let rumor = EventBuilder::new(Kind::Custom(9), format!("m{}", rng.below(100000)))
                .build(self.pk(c));
            let r = self.mdks[c].create_message(&gid, rumor);
            self.trace
                .push(format!("{} create_message -> {:?}", self.names[c], r.is_ok()));
            if let Ok(ev) = r {
                self.publish(&gid, ev, c);
            }
        } else if sub < 95 {
            let r = self.mdks[c].merge_pending_commit(&gid);
            self.trace
                .push(format!("{} merge (late) -> {:?}", self.names[c], r.is_ok()));
        } else {
            let r = self.mdks[c].clear_pending_commit(&gid);
            self.trace
                .push(format!("{} clear (late) -> {:?}", self.names[c], r.is_ok()));
        }
    }

    fn random_relays(&self, rng: &mut Rng) -> Vec<RelayUrl> {
        let k = rng.below(4);
        let mut v = vec![];
        for _ in 0..k {
            v.push(RelayUrl::parse(RELAY_POOL[rng.below(RELAY_POOL.len())]).unwrap());
        }
        v
    }
}

fn run<S: MdkStorageProvider>(
    label: &str,
    seed: u64,
    steps: usize,
    mk: &mut dyn FnMut(usize) -> S,
) -> Vec<String> {
    let mut rng = Rng::new(seed);
    let mut w: World<S> = World::new(4, mk);
    w.can_restart = label == "sqlite";
    for step in 0..steps {
        let before = w.trace.len();
        w.step(&mut rng, mk);
        let diffs = w.check(step);
        if !diffs.is_empty() {
            let mut out = vec![format!("[{label} seed {seed}] property broken:")];
            out.extend(diffs);
            out.push("last trace lines:".into());
            let from = w.trace.len().saturating_sub(25).min(before);
            for l in &w.trace[from..] {
                out.push(format!("   {l}"));
            }
            return out;
        }
    }
    if std::env::var("Q08_TRACE").is_ok() {
        for l in &w.trace {
            println!("{l}");
        }
    }
    if std::env::var("Q08_STATS").is_ok() {
        let mut counts: std::collections::BTreeMap<String, usize> = Default::default();
        for l in &w.trace {
            let key: String = l
                .split_whitespace()
                .skip(1)
                .filter(|t| !t.chars().any(|c| c.is_ascii_digit()) || t.starts_with("->"))
                .take(4)
                .collect::<Vec<_>>()
                .join(" ");
            *counts.entry(key).or_default() += 1;
        }
        println!("[{label} seed {seed}] {counts:#?}");
        println!("rollbacks so far: {}", ROLLBACKS.load(std::sync::atomic::Ordering::SeqCst));
    }
    vec![]
}

fn max_groups() -> usize {
    std::env::var("Q08_GROUPS").ok().and_then(|s| s.parse().ok()).unwrap_or(2)
}
fn rot_pct() -> u64 {
    std::env::var("Q08_ROT").ok().and_then(|s| s.parse().ok()).unwrap_or(8)
}

fn seeds() -> (u64, u64, usize) {
    let from = std::env::var("Q08_SEED_FROM")
        .ok()
        .and_then(|s| s.parse().ok())
        .unwrap_or(1);
    let count = std::env::var("Q08_SEEDS")
        .ok()
        .and_then(|s| s.parse().ok())
        .unwrap_or(20);
    let steps = std::env::var("Q08_STEPS")
        .ok()
        .and_then(|s| s.parse().ok())
        .unwrap_or(250);
    (from, count, steps)
}

#[test]
fn q08_model_memory() {
    let (from, count, steps) = seeds();
    let mut failures = vec![];
    for seed in from..from + count {
        let r = run("memory", seed, steps, &mut |_| MdkMemoryStorage::default());
        if !r.is_empty() {
            failures.push(r.join("\n"));
        }
    }
    println!("memory: rollbacks observed: {}", ROLLBACKS.load(std::sync::atomic::Ordering::SeqCst));
    assert!(failures.is_empty(), "{}", failures.join("\n\n"));
}

#[test]
fn q08_model_sqlite() {
    let (from, count, steps) = seeds();
    let mut failures = vec![];
    for seed in from..from + count {
        let dir = tempfile::TempDir::new().unwrap();
        let r = run("sqlite", seed, steps, &mut |i| {
            MdkSqliteStorage::new_unencrypted(dir.path().join(format!("c{i}.db"))).unwrap()
        });
        if !r.is_empty() {
            failures.push(r.join("\n"));
        }
    }
    assert!(failures.is_empty(), "{}", failures.join("\n\n"));
}
