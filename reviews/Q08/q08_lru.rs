//! Q08 hypothesis: on the memory backend the relay set of an ACTIVE group silently becomes
//! empty (while the record and the MLS state stay) once more groups than the LRU capacity
//! (default 1000) exist, because the relay cache has its own recency order: save_group
//! (every create_message / processed message) refreshes the group record's slot but never the
//! relay slot.
//!
//! cargo test -p mdk-core --offline --features debug-examples --test q08_lru -- --nocapture

#![cfg(feature = "debug-examples")]

use mdk_core::prelude::*;
use mdk_memory_storage::MdkMemoryStorage;
use nostr::{EventBuilder, Keys, Kind, RelayUrl};

#[test]
fn q08_relays_evicted_while_record_stays_default_config() {
    let keys = Keys::generate();
    let mdk = MDK::new(MdkMemoryStorage::default());
    let relay = RelayUrl::parse("wss://test.relay").unwrap();

    let mk = |name: String| {
        NostrGroupConfigData::new(
            name,
            "d".to_string(),
            None,
            None,
            None,
            vec![relay.clone()],
            vec![keys.public_key()],
        )
    };

    // group 1
    let g1 = mdk
        .create_group(&keys.public_key(), vec![], mk("g1".into()))
        .unwrap()
        .group
        .mls_group_id;

    // 999 more groups: the caches are now full (1000 entries each)
    for i in 0..999 {
        mdk.create_group(&keys.public_key(), vec![], mk(format!("x{i}")))
            .unwrap();
    }

    // the user writes into group 1: save_group refreshes the record slot of g1, not its relays
    let rumor = EventBuilder::new(Kind::Custom(9), "hi").build(keys.public_key());
    mdk.create_message(&g1, rumor).unwrap();

    // one more group
    mdk.create_group(&keys.public_key(), vec![], mk("last".into()))
        .unwrap();

    let record = mdk.get_group(&g1).unwrap().expect("record of g1 is still there");
    assert_eq!(record.state, group_types::GroupState::Active);
    let mls = mdk.load_mls_group(&g1).unwrap().unwrap();
    let ext = NostrGroupDataExtension::from_group(&mls).unwrap();
    let stored = mdk.get_relays(&g1).unwrap();
    println!("MLS relays: {:?}", ext.relays);
    println!("stored relays: {:?}", stored);
    assert_eq!(
        stored, ext.relays,
        "relay set of an active group differs from its MLS state"
    );
}

/// Same limit, stronger effect: after 1000 newer groups the record of an older ACTIVE group is
/// gone altogether (get_group = None, its Nostr id routes to nothing, a member's message tagged
/// with the id in force is answered "group not found") although the MLS group is still stored.
#[test]
fn q08_record_evicted_mls_state_stays_default_config() {
    use nostr::{EventId, Kind as K};
    let (ak, bk) = (Keys::generate(), Keys::generate());
    let a = MDK::new(MdkMemoryStorage::default());
    let b = MDK::new(MdkMemoryStorage::default());
    let relay = RelayUrl::parse("wss://test.relay").unwrap();
    let (kp, tags, _) = b
        .create_key_package_for_event(&bk.public_key(), vec![relay.clone()])
        .unwrap();
    let kp_event = EventBuilder::new(K::MlsKeyPackage, kp)
        .tags(tags)
        .sign_with_keys(&bk)
        .unwrap();
    let res = a
        .create_group(
            &ak.public_key(),
            vec![kp_event],
            NostrGroupConfigData::new(
                "g1".into(),
                "d".into(),
                None,
                None,
                None,
                vec![relay.clone()],
                vec![ak.public_key()],
            ),
        )
        .unwrap();
    let g1 = res.group.mls_group_id.clone();
    let w = b
        .process_welcome(&EventId::all_zeros(), &res.welcome_rumors[0])
        .unwrap();
    b.accept_welcome(&w).unwrap();

    for i in 0..1000 {
        a.create_group(
            &ak.public_key(),
            vec![],
            NostrGroupConfigData::new(
                format!("x{i}"),
                "d".into(),
                None,
                None,
                None,
                vec![relay.clone()],
                vec![ak.public_key()],
            ),
        )
        .unwrap();
    }

    let mls = a.load_mls_group(&g1).unwrap();
    println!("MLS group of g1 still stored: {}", mls.is_some());
    let msg = b
        .create_message(
            &g1,
            EventBuilder::new(Kind::Custom(9), "are you there?").build(bk.public_key()),
        )
        .unwrap();
    let r = a.process_message(&msg);
    println!("alice processes bob's message: {r:?}");
    let rec = a.get_group(&g1).unwrap();
    println!("record of g1: {:?}", rec.as_ref().map(|g| g.state));
    assert!(mls.is_some());
    assert!(
        rec.is_some() && r.is_ok(),
        "active group lost its record / its events are no longer routed"
    );
}
