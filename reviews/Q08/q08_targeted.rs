//! Q08 / C08 targeted histories (deterministic), mirror check after every step, both backends.
//!
//! cargo test -p mdk-core --offline --features debug-examples --test q08_targeted -- --nocapture

#![cfg(feature = "debug-examples")]
#![allow(dead_code)]

#[path = "q08_model.rs"]
mod model;

use mdk_core::prelude::*;
use mdk_memory_storage::MdkMemoryStorage;
use mdk_sqlite_storage::MdkSqliteStorage;
use mdk_storage_traits::groups::GroupStorage as _;
use model::{build_mdk, key_package_event, mirror_diffs};
use nostr::{Event, EventBuilder, EventId, Keys, Kind, RelayUrl};
use openmls_traits::OpenMlsProvider;

fn assert_mirror<S: MdkStorageProvider>(step: &str, who: &str, mdk: &MDK<S>) {
    // SAFETY: tests in this binary that rely on the reverse check set it themselves
    let d = mirror_diffs(who, mdk);
    assert!(d.is_empty(), "after {step}: {}", d.join("\n"));
}

fn cfg(admins: Vec<nostr::PublicKey>, relays: &[&str]) -> NostrGroupConfigData {
    NostrGroupConfigData::new(
        "g".into(),
        "d".into(),
        Some([1u8; 32]),
        Some([2u8; 32]),
        Some([3u8; 12]),
        relays.iter().map(|r| RelayUrl::parse(r).unwrap()).collect(),
        admins,
    )
}

fn join<S: MdkStorageProvider>(mdk: &MDK<S>, rumor: &nostr::UnsignedEvent, n: u8) {
    let w = mdk
        .process_welcome(&EventId::from_byte_array([n; 32]), rumor)
        .expect("process_welcome");
    mdk.accept_welcome(&w).expect("accept_welcome");
}

/// (ts, id) ordering of MIP-03: smaller wins
fn better<'a>(a: &'a Event, b: &'a Event) -> (&'a Event, &'a Event) {
    let ka = (a.created_at.as_secs(), a.id.to_hex());
    let kb = (b.created_at.as_secs(), b.id.to_hex());
    if ka < kb { (a, b) } else { (b, a) }
}

/// T1: a rollback over several epochs in which the id was rotated away and back, relays and
/// image changed; then the better commit is applied.
fn t1_multi_epoch_rollback<S: MdkStorageProvider>(mk: &mut dyn FnMut(usize) -> S) {
    let (ak, bk, ck) = (Keys::generate(), Keys::generate(), Keys::generate());
    let (a, b, c) = (build_mdk(mk(0)), build_mdk(mk(1)), build_mdk(mk(2)));
    let res = a
        .create_group(
            &ak.public_key(),
            vec![key_package_event(&b, &bk), key_package_event(&c, &ck)],
            cfg(vec![ak.public_key(), bk.public_key()], &["wss://r.one"]),
        )
        .unwrap();
    let gid = res.group.mls_group_id.clone();
    let x = res.group.nostr_group_id;
    join(&b, &res.welcome_rumors[0], 1);
    join(&c, &res.welcome_rumors[1], 2);
    for (n, m) in [("a", &a), ("b", &b), ("c", &c)] {
        let _ = n;
        let _ = m;
    }
    assert_mirror("join", "b", &b);
    assert_mirror("join", "c", &c);

    // fork at epoch 1: Alice and Bob both commit
    let ca = a
        .update_group_data(&gid, NostrGroupDataUpdate::new().name("by-alice".to_string()))
        .unwrap()
        .evolution_event;
    let cb = b
        .update_group_data(&gid, NostrGroupDataUpdate::new().name("by-bob".to_string()))
        .unwrap()
        .evolution_event;
    let (win, lose) = better(&ca, &cb);
    let (loser_mdk, _winner_mdk): (&MDK<S>, &MDK<S>) =
        if lose.id == ca.id { (&a, &b) } else { (&b, &a) };

    // Carol sees the losing commit first and follows the loser for three more epochs
    c.process_message(lose).unwrap();
    assert_mirror("c: losing commit", "c", &c);
    loser_mdk.merge_pending_commit(&gid).unwrap();
    assert_mirror("loser merge", "loser", loser_mdk);

    let y = [0x77u8; 32];
    let e2 = loser_mdk
        .update_group_data(
            &gid,
            NostrGroupDataUpdate::new()
                .nostr_group_id(y)
                .relays(vec![
                    RelayUrl::parse("wss://r.two").unwrap(),
                    RelayUrl::parse("wss://r.three/").unwrap(),
                ])
                .image_hash(None),
        )
        .unwrap()
        .evolution_event;
    loser_mdk.merge_pending_commit(&gid).unwrap();
    assert_mirror("loser e2", "loser", loser_mdk);
    c.process_message(&e2).unwrap();
    assert_mirror("c: e2", "c", &c);

    let e3 = loser_mdk
        .update_group_data(
            &gid,
            NostrGroupDataUpdate::new()
                .nostr_group_id(x)
                .relays(vec![])
                .image_hash(Some([9u8; 32]))
                .image_key(Some([8u8; 32]))
                .image_nonce(Some([7u8; 12])),
        )
        .unwrap()
        .evolution_event;
    loser_mdk.merge_pending_commit(&gid).unwrap();
    assert_mirror("loser e3", "loser", loser_mdk);
    c.process_message(&e3).unwrap();
    assert_mirror("c: e3", "c", &c);
    assert_eq!(c.get_group(&gid).unwrap().unwrap().epoch, 4);

    // now the better commit of epoch 1 reaches Carol (tagged x, the id in force again)
    let r = c.process_message(win);
    println!("carol processes the better commit: {r:?}");
    assert_mirror("c: rollback + better commit", "c", &c);
    let g = c.get_group(&gid).unwrap().unwrap();
    println!("carol after rollback: epoch {} name {}", g.epoch, g.name);
    assert_eq!(g.epoch, 2);
    // the abandoned id y must not route anywhere
    assert!(
        c.provider
            .storage()
            .find_group_by_nostr_group_id(&y)
            .unwrap()
            .is_none()
    );
}

/// T2: eviction, then the group changes (rotation, relays, name), then re-invite and accept.
fn t2_evict_reinvite<S: MdkStorageProvider>(mk: &mut dyn FnMut(usize) -> S) {
    let (ak, bk) = (Keys::generate(), Keys::generate());
    let (a, b) = (build_mdk(mk(0)), build_mdk(mk(1)));
    let res = a
        .create_group(
            &ak.public_key(),
            vec![key_package_event(&b, &bk)],
            cfg(vec![ak.public_key()], &["wss://r.one"]),
        )
        .unwrap();
    let gid = res.group.mls_group_id.clone();
    let x = res.group.nostr_group_id;
    join(&b, &res.welcome_rumors[0], 1);
    assert_mirror("join", "b", &b);

    let rm = a.remove_members(&gid, &[bk.public_key()]).unwrap();
    a.merge_pending_commit(&gid).unwrap();
    b.process_message(&rm.evolution_event).unwrap();
    assert_eq!(
        b.get_group(&gid).unwrap().unwrap().state,
        group_types::GroupState::Inactive
    );

    let y = [0x55u8; 32];
    a.update_group_data(
        &gid,
        NostrGroupDataUpdate::new()
            .nostr_group_id(y)
            .name("renamed".to_string())
            .relays(vec![RelayUrl::parse("wss://r.two").unwrap()])
            .image_hash(None),
    )
    .unwrap();
    a.merge_pending_commit(&gid).unwrap();
    assert_mirror("a: update", "a", &a);

    let add = a.add_members(&gid, &[key_package_event(&b, &bk)]).unwrap();
    a.merge_pending_commit(&gid).unwrap();
    let w = b
        .process_welcome(
            &EventId::from_byte_array([9; 32]),
            &add.welcome_rumors.unwrap()[0],
        )
        .unwrap();
    assert_mirror("b: process_welcome", "b", &b);
    b.accept_welcome(&w).unwrap();
    assert_mirror("b: accept_welcome", "b", &b);
    let g = b.get_group(&gid).unwrap().unwrap();
    assert_eq!(g.state, group_types::GroupState::Active);
    assert_eq!(g.nostr_group_id, y);
    assert!(
        b.provider
            .storage()
            .find_group_by_nostr_group_id(&x)
            .unwrap()
            .is_none(),
        "old id still routes"
    );
    // a message in the new epoch reaches Bob
    let m = a
        .create_message(
            &gid,
            EventBuilder::new(Kind::Custom(9), "hello again").build(ak.public_key()),
        )
        .unwrap();
    let r = b.process_message(&m).unwrap();
    assert!(matches!(r, MessageProcessingResult::ApplicationMessage(_)));
    assert_mirror("b: message", "b", &b);
}

/// T3: two groups on one client swap ids through two rotations; routing follows.
fn t3_swap_ids<S: MdkStorageProvider>(mk: &mut dyn FnMut(usize) -> S) {
    let (ak, bk) = (Keys::generate(), Keys::generate());
    let (a, b) = (build_mdk(mk(0)), build_mdk(mk(1)));
    let mut ids = vec![];
    let mut gids = vec![];
    for n in 0..2u8 {
        let res = a
            .create_group(
                &ak.public_key(),
                vec![key_package_event(&b, &bk)],
                cfg(vec![ak.public_key()], &["wss://r.one"]),
            )
            .unwrap();
        join(&b, &res.welcome_rumors[0], 10 + n);
        ids.push(res.group.nostr_group_id);
        gids.push(res.group.mls_group_id.clone());
    }
    let z = [0x42u8; 32];
    let rot = |g: usize, id: [u8; 32]| -> Event {
        let e = a
            .update_group_data(&gids[g], NostrGroupDataUpdate::new().nostr_group_id(id))
            .unwrap()
            .evolution_event;
        a.merge_pending_commit(&gids[g]).unwrap();
        e
    };
    // group1: id1 -> z ; group0: id0 -> id1 ; group1: z -> id0   (ids swapped)
    for e in [rot(1, z), rot(0, ids[1]), rot(1, ids[0])] {
        let r = b.process_message(&e);
        println!("bob: {r:?}");
        assert_mirror("b: rotation", "b", &b);
        assert_mirror("a: rotation", "a", &a);
    }
    let g0 = b.get_group(&gids[0]).unwrap().unwrap();
    let g1 = b.get_group(&gids[1]).unwrap().unwrap();
    assert_eq!(g0.nostr_group_id, ids[1]);
    assert_eq!(g1.nostr_group_id, ids[0]);
    // messages are routed to the right group
    for (g, _) in gids.iter().enumerate() {
        let m = a
            .create_message(
                &gids[g],
                EventBuilder::new(Kind::Custom(9), format!("to {g}")).build(ak.public_key()),
            )
            .unwrap();
        match b.process_message(&m).unwrap() {
            MessageProcessingResult::ApplicationMessage(msg) => {
                assert_eq!(msg.mls_group_id, gids[g], "routed to the wrong group")
            }
            other => panic!("not delivered: {other:?}"),
        }
    }
}

/// T4: own commit echo after clear_pending_commit, with and without another pending commit.
fn t4_own_echo_after_clear<S: MdkStorageProvider>(mk: &mut dyn FnMut(usize) -> S) {
    let (ak, bk) = (Keys::generate(), Keys::generate());
    let (a, b) = (build_mdk(mk(0)), build_mdk(mk(1)));
    let res = a
        .create_group(
            &ak.public_key(),
            vec![key_package_event(&b, &bk)],
            cfg(vec![ak.public_key()], &["wss://r.one"]),
        )
        .unwrap();
    let gid = res.group.mls_group_id.clone();
    join(&b, &res.welcome_rumors[0], 1);

    let p1 = a
        .update_group_data(
            &gid,
            NostrGroupDataUpdate::new().nostr_group_id([0x66u8; 32]),
        )
        .unwrap()
        .evolution_event;
    a.clear_pending_commit(&gid).unwrap();
    assert_mirror("a: clear", "a", &a);
    let r = a.process_message(&p1);
    println!("alice: echo of cleared commit: {r:?}");
    assert_mirror("a: echo of cleared commit", "a", &a);

    // another pending commit, then the echo of the cleared one again (other wrapper)
    let _p2 = a
        .update_group_data(&gid, NostrGroupDataUpdate::new().name("p2".to_string()))
        .unwrap();
    assert_mirror("a: p2 pending", "a", &a);
    let r = a.process_message(&p1);
    println!("alice: echo of p1 while p2 pending: {r:?}");
    assert_mirror("a: echo of p1 while p2 pending", "a", &a);
    let g = a.get_group(&gid).unwrap().unwrap();
    println!("alice now: epoch {} name {}", g.epoch, g.name);
    let _ = b;
}

macro_rules! both {
    ($name_mem:ident, $name_sql:ident, $f:ident) => {
        #[test]
        fn $name_mem() {
            $f(&mut |_| MdkMemoryStorage::default());
        }
        #[test]
        fn $name_sql() {
            let dir = tempfile::TempDir::new().unwrap();
            $f(&mut |i| {
                MdkSqliteStorage::new_unencrypted(dir.path().join(format!("c{i}.db"))).unwrap()
            });
        }
    };
}

both!(t1_memory, t1_sqlite, t1_multi_epoch_rollback);
both!(t2_memory, t2_sqlite, t2_evict_reinvite);
both!(t3_memory, t3_sqlite, t3_swap_ids);
both!(t4_memory, t4_sqlite, t4_own_echo_after_clear);

/// T5 (SQLite): pending rotation commit, restart, merge after restart, routing after restart.
#[test]
fn t5_sqlite_restart() {
    let dir = tempfile::TempDir::new().unwrap();
    let open = |i: usize| {
        build_mdk(MdkSqliteStorage::new_unencrypted(dir.path().join(format!("c{i}.db"))).unwrap())
    };
    let (ak, bk) = (Keys::generate(), Keys::generate());
    let (a, b) = (open(0), open(1));
    let res = a
        .create_group(
            &ak.public_key(),
            vec![key_package_event(&b, &bk)],
            cfg(vec![ak.public_key()], &["wss://r.one", "wss://r.two/x/"]),
        )
        .unwrap();
    let gid = res.group.mls_group_id.clone();
    let x = res.group.nostr_group_id;
    join(&b, &res.welcome_rumors[0], 1);
    let y = [0x31u8; 32];
    let rot = a
        .update_group_data(&gid, NostrGroupDataUpdate::new().nostr_group_id(y))
        .unwrap()
        .evolution_event;
    drop(a);
    let a = open(0);
    assert_mirror("a: restart with pending commit", "a", &a);
    assert_eq!(a.get_group(&gid).unwrap().unwrap().nostr_group_id, x);
    a.merge_pending_commit(&gid).unwrap();
    assert_mirror("a: merge after restart", "a", &a);
    b.process_message(&rot).unwrap();
    drop(b);
    let b = open(1);
    assert_mirror("b: restart", "b", &b);
    let m = a
        .create_message(
            &gid,
            EventBuilder::new(Kind::Custom(9), "after restart").build(ak.public_key()),
        )
        .unwrap();
    assert!(matches!(
        b.process_message(&m).unwrap(),
        MessageProcessingResult::ApplicationMessage(_)
    ));
    assert_mirror("b: message after restart", "b", &b);
}

/// T6: an event tagged with the NEW id reaches a member before that member has applied the
/// rotation (its own rotation commit is still pending / the commit is still on its way).
/// It is answered "group not found" - and stays refused when it is offered again after the
/// rotation is in force on this client.
fn t6_new_id_too_early<S: MdkStorageProvider>(mk: &mut dyn FnMut(usize) -> S) {
    t6_inner(mk, true)
}
/// Control: the same history without the early delivery - the message is delivered.
fn t6_control<S: MdkStorageProvider>(mk: &mut dyn FnMut(usize) -> S) {
    t6_inner(mk, false)
}
fn t6_inner<S: MdkStorageProvider>(mk: &mut dyn FnMut(usize) -> S, deliver_early: bool) {
    let (ak, bk) = (Keys::generate(), Keys::generate());
    let (a, b) = (build_mdk(mk(0)), build_mdk(mk(1)));
    let res = a
        .create_group(
            &ak.public_key(),
            vec![key_package_event(&b, &bk)],
            cfg(vec![ak.public_key()], &["wss://r.one"]),
        )
        .unwrap();
    let gid = res.group.mls_group_id.clone();
    join(&b, &res.welcome_rumors[0], 1);
    let y = [0x21u8; 32];
    let rot = a
        .update_group_data(&gid, NostrGroupDataUpdate::new().nostr_group_id(y))
        .unwrap()
        .evolution_event;
    // published; Bob applies it and answers at once
    b.process_message(&rot).unwrap();
    let m = b
        .create_message(
            &gid,
            EventBuilder::new(Kind::Custom(9), "first message under the new id")
                .build(bk.public_key()),
        )
        .unwrap();
    // Alice has not merged yet (waiting for the relay's OK)
    if deliver_early {
        let early = a.process_message(&m);
        println!("alice, before merge: {early:?}");
    }
    a.merge_pending_commit(&gid).unwrap();
    assert_mirror("a: merge", "a", &a);
    assert_eq!(a.get_group(&gid).unwrap().unwrap().nostr_group_id, y);
    let late = a.process_message(&m);
    println!("alice, after merge (id in force = tag of the event): {late:?}");
    assert!(
        matches!(late, Ok(MessageProcessingResult::ApplicationMessage(_))),
        "event tagged with the id in force is not delivered to the group: {late:?}"
    );
}
both!(t6_memory, t6_sqlite, t6_new_id_too_early);
both!(t6_control_memory, t6_control_sqlite, t6_control);

/// T7: as T6, but the early event is the NEXT COMMIT of the group (by a second admin): the
/// member whose rotation commit was still pending never applies it and is stuck one epoch back.
fn t7_new_id_too_early_commit<S: MdkStorageProvider>(mk: &mut dyn FnMut(usize) -> S) {
    let (ak, bk) = (Keys::generate(), Keys::generate());
    let (a, b) = (build_mdk(mk(0)), build_mdk(mk(1)));
    let res = a
        .create_group(
            &ak.public_key(),
            vec![key_package_event(&b, &bk)],
            cfg(vec![ak.public_key(), bk.public_key()], &["wss://r.one"]),
        )
        .unwrap();
    let gid = res.group.mls_group_id.clone();
    join(&b, &res.welcome_rumors[0], 1);
    let y = [0x22u8; 32];
    let rot = a
        .update_group_data(&gid, NostrGroupDataUpdate::new().nostr_group_id(y))
        .unwrap()
        .evolution_event;
    b.process_message(&rot).unwrap();
    let c2 = b
        .update_group_data(&gid, NostrGroupDataUpdate::new().name("renamed by bob".to_string()))
        .unwrap()
        .evolution_event;
    b.merge_pending_commit(&gid).unwrap();
    println!("alice, before merge: {:?}", a.process_message(&c2));
    a.merge_pending_commit(&gid).unwrap();
    let late = a.process_message(&c2);
    println!("alice, after merge: {late:?}");
    assert_mirror("a: after late commit", "a", &a);
    let (ea, eb) = (
        a.get_group(&gid).unwrap().unwrap().epoch,
        b.get_group(&gid).unwrap().unwrap().epoch,
    );
    println!("epochs: alice {ea} bob {eb}");
    assert!(
        matches!(late, Ok(MessageProcessingResult::Commit { .. })) && ea == eb,
        "commit tagged with the id in force is not applied: {late:?}, alice at {ea}, bob at {eb}"
    );
}
both!(t7_memory, t7_sqlite, t7_new_id_too_early_commit);
