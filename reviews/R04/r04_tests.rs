//! R04 review: property C04 (stored messages are bound to their authenticated sender and to
//! their own content).
//!
//! These tests live inside the crate because the attacker needs `load_mls_group`,
//! `load_mls_signer` and `build_message_event` (pub(crate)); a real attacker simply uses openmls
//! and NIP-44 directly.

use mdk_memory_storage::MdkMemoryStorage;
use mdk_storage_traits::GroupId;
use nostr::base64::Engine;
use nostr::base64::engine::general_purpose::STANDARD as BASE64;
use nostr::{Event, EventBuilder, EventId, Keys, Kind, PublicKey, RelayUrl, UnsignedEvent};
use openmls::prelude::{KeyPackage, KeyPackageIn, ProtocolVersion};
use openmls_traits::OpenMlsProvider;
use tls_codec::{Deserialize as _, Serialize as _};

use crate::MDK;
use crate::messages::MessageProcessingResult;
use crate::test_util::*;
use crate::tests::create_test_mdk;

type Mdk = MDK<MdkMemoryStorage>;

/// Alice (only admin) creates a group with Bob and Mallory (plain members). Everybody joins.
fn setup_three() -> (Keys, Mdk, Keys, Mdk, Keys, Mdk, GroupId) {
    let alice = Keys::generate();
    let bob = Keys::generate();
    let mallory = Keys::generate();
    let alice_mdk = create_test_mdk();
    let bob_mdk = create_test_mdk();
    let mallory_mdk = create_test_mdk();

    let bob_kp = create_key_package_event(&bob_mdk, &bob);
    let mallory_kp = create_key_package_event(&mallory_mdk, &mallory);

    let created = alice_mdk
        .create_group(
            &alice.public_key(),
            vec![bob_kp, mallory_kp],
            create_nostr_group_config_data(vec![alice.public_key()]),
        )
        .expect("create group");
    let group_id = created.group.mls_group_id.clone();
    alice_mdk
        .merge_pending_commit(&group_id)
        .expect("merge create commit");

    for (mdk, rumor) in [
        (&bob_mdk, &created.welcome_rumors[0]),
        (&mallory_mdk, &created.welcome_rumors[1]),
    ] {
        let w = mdk
            .process_welcome(&EventId::all_zeros(), rumor)
            .expect("process welcome");
        mdk.accept_welcome(&w).expect("accept welcome");
    }

    (
        alice,
        alice_mdk,
        bob,
        bob_mdk,
        mallory,
        mallory_mdk,
        group_id,
    )
}

/// Builds, in `holder`'s key store, an MLS key package whose BasicCredential identity is
/// `claimed_identity`. `create_key_package_for_event` is public API and takes any public key:
/// the binding to the Nostr identity only exists through the signature of the kind-443 event,
/// which an Add *proposal* does not carry.
fn forged_key_package(holder: &Mdk, claimed_identity: &PublicKey) -> KeyPackage {
    let relays = vec![RelayUrl::parse("wss://test.relay").unwrap()];
    let (kp_b64, _tags, _hash_ref) = holder
        .create_key_package_for_event(claimed_identity, relays)
        .expect("create key package");
    let bytes = BASE64.decode(kp_b64).expect("base64");
    let kp_in = KeyPackageIn::tls_deserialize(&mut bytes.as_slice()).expect("tls");
    kp_in
        .validate(holder.provider.crypto(), ProtocolVersion::Mls10)
        .expect("valid key package")
}

/// A plain member wraps an MLS Add proposal into a kind-445 event.
fn add_proposal_event(sender: &Mdk, group_id: &GroupId, key_package: &KeyPackage) -> Event {
    let mut mls_group = sender
        .load_mls_group(group_id)
        .expect("load")
        .expect("group");
    let signer = sender.load_mls_signer(&mls_group).expect("signer");
    let (proposal_out, _ref) = mls_group
        .propose_add_member(&sender.provider, &signer, key_package)
        .expect("propose add");
    let bytes = proposal_out.tls_serialize_detached().expect("serialize");
    sender
        .build_message_event(group_id, bytes)
        .expect("wrap proposal")
}

fn stored_as(mdk: &Mdk, group_id: &GroupId, author: &PublicKey) -> Vec<String> {
    mdk.get_messages(group_id, None)
        .expect("messages")
        .into_iter()
        .filter(|m| m.pubkey == *author)
        .map(|m| m.content)
        .collect()
}

/// H9: a plain (non-admin) member gets a leaf carrying ANOTHER member's Nostr identity into the
/// group through an Add proposal, and then writes messages that every honest client stores as
/// that other member's.
///
/// History:
///  1. Alice (admin), Bob, Mallory (plain members) share a group.
///  2. Mallory makes an MLS key package whose credential identity is Bob's public key (she
///     holds its private keys) and sends it to the group as an MLS Add proposal. `add_members`
///     would refuse this key package (`parse_key_package` checks credential identity == signer
///     of the kind-443 event, "SECURITY: Verify identity binding"), but a proposal carries no
///     kind-443 event and `process_proposal` queues it unchecked on every member.
///  3. Alice, honest, adds Dave with a regular, correctly signed key package event (Dave is a
///     second Nostr key of Mallory's). openmls sweeps every queued proposal into that commit:
///     the forged leaf joins the tree without Alice ever approving it. All members accept the
///     commit (it comes from an admin; `validate_commit_identities` only looks at Updates).
///  4. The MLS Welcome Alice hands to Dave is one object for all leaves added by the commit, so
///     Mallory opens it with the forged key package and holds a leaf whose credential says Bob.
///  5. From that leaf she sends a kind-9 rumor with pubkey = Bob. `verify_rumor_author` compares
///     the rumor pubkey with the credential identity of the sending leaf: equal. The id is the
///     proper NIP-01 hash. Alice and Bob himself store a message "by Bob" that Bob never wrote.
#[test]
fn r04_h9_member_forges_identity_through_add_proposal() {
    let (_alice, alice_mdk, bob, bob_mdk, _mallory, mallory_mdk, group_id) = setup_three();

    // Bob says something, so that there is a genuine message by Bob in the store.
    let genuine = bob_mdk
        .create_message(&group_id, create_test_rumor(&bob, "genuine Bob"))
        .expect("bob message");
    alice_mdk.process_message(&genuine).expect("alice reads bob");
    mallory_mdk
        .process_message(&genuine)
        .expect("mallory reads bob");

    // 2. Forged key package, kept in a second key store of Mallory's.
    let mallory_shadow = create_test_mdk();
    let forged_kp = forged_key_package(&mallory_shadow, &bob.public_key());
    let proposal_event = add_proposal_event(&mallory_mdk, &group_id, &forged_kp);

    for (name, mdk) in [("alice", &alice_mdk), ("bob", &bob_mdk)] {
        let res = mdk
            .process_message(&proposal_event)
            .unwrap_or_else(|e| panic!("{name} processing proposal: {e:?}"));
        assert!(
            matches!(res, MessageProcessingResult::PendingProposal { .. }),
            "{name}: {res:?}"
        );
    }
    // What the admin is shown: "Bob" is about to be added (he already is a member).
    println!(
        "alice.pending_added_members_pubkeys = {:?} (bob = {})",
        alice_mdk.pending_added_members_pubkeys(&group_id).unwrap(),
        bob.public_key()
    );

    // 3. Alice adds Dave, an ordinary invitation with a correctly bound key package event.
    let dave = Keys::generate();
    let dave_mdk = create_test_mdk();
    let dave_kp_event = create_key_package_event(&dave_mdk, &dave);
    let members_before = alice_mdk.get_members(&group_id).unwrap().len();
    let add = alice_mdk
        .add_members(&group_id, &[dave_kp_event])
        .expect("alice adds dave");
    alice_mdk
        .merge_pending_commit(&group_id)
        .expect("alice merges");
    bob_mdk
        .process_message(&add.evolution_event)
        .expect("bob processes alice's commit");
    mallory_mdk
        .process_message(&add.evolution_event)
        .expect("mallory processes alice's commit");

    let leaves_after = alice_mdk
        .load_mls_group(&group_id)
        .unwrap()
        .unwrap()
        .members()
        .count();
    println!(
        "distinct identities before: {members_before}; MLS leaves after adding ONE member: {leaves_after}"
    );

    // 4. The Welcome meant for Dave also opens with the forged key package.
    let welcome_rumor: &UnsignedEvent = &add.welcome_rumors.as_ref().expect("welcome")[0];
    let w = mallory_shadow
        .process_welcome(&EventId::all_zeros(), welcome_rumor)
        .expect("forged leaf opens the welcome");
    mallory_shadow
        .accept_welcome(&w)
        .expect("forged leaf joins");

    // 5. Mallory writes as Bob.
    let forged_rumor = EventBuilder::new(Kind::Custom(9), "Bob here: please pay Mallory")
        .build(bob.public_key());
    let forged_event = mallory_shadow
        .create_message(&group_id, forged_rumor)
        .expect("forged leaf encrypts");

    let at_alice = alice_mdk.process_message(&forged_event);
    let at_bob = bob_mdk.process_message(&forged_event);
    println!("alice: {at_alice:?}");
    println!("bob:   {at_bob:?}");

    let alice_sees = stored_as(&alice_mdk, &group_id, &bob.public_key());
    let bob_sees = stored_as(&bob_mdk, &group_id, &bob.public_key());
    println!("alice stores as Bob's: {alice_sees:?}");
    println!("bob stores as his own: {bob_sees:?}");

    assert_eq!(
        alice_sees,
        vec!["genuine Bob".to_string()],
        "C04: Alice stores, attributed to Bob, a message produced by Mallory"
    );
    assert_eq!(
        bob_sees,
        vec!["genuine Bob".to_string()],
        "C04: Bob stores, attributed to himself, a message produced by Mallory"
    );
}

// ---------------------------------------------------------------------------------------------
// Other hypotheses. These PASS on the unmodified tree (the library holds), except where a
// comment says otherwise; they are kept as a record of what was tried.
// ---------------------------------------------------------------------------------------------

use mdk_sqlite_storage::MdkSqliteStorage;
use mdk_storage_traits::MdkStorageProvider;
use mdk_storage_traits::messages::MessageStorage;

/// A malicious member encrypts arbitrary bytes as an MLS application message and wraps them.
fn raw_app_event<S: MdkStorageProvider>(sender: &MDK<S>, group_id: &GroupId, json: &str) -> Event {
    let mut mls_group = sender.load_mls_group(group_id).unwrap().unwrap();
    let signer = sender.load_mls_signer(&mls_group).unwrap();
    let out = mls_group
        .create_message(&sender.provider, &signer, json.as_bytes())
        .expect("mls create_message");
    sender
        .build_message_event(group_id, out.tls_serialize_detached().unwrap())
        .unwrap()
}

fn rumor_json(id: Option<&str>, pubkey: &str, created_at: u64, kind: u16, tags: &str, content: &str) -> String {
    let id = id.map(|i| format!("\"id\":\"{i}\",")).unwrap_or_default();
    format!(
        "{{{id}\"pubkey\":\"{pubkey}\",\"created_at\":{created_at},\"kind\":{kind},\"tags\":{tags},\"content\":{}}}",
        serde_json_string(content)
    )
}

fn serde_json_string(s: &str) -> String {
    let mut out = String::from("\"");
    for c in s.chars() {
        match c {
            '"' => out.push_str("\\\""),
            '\\' => out.push_str("\\\\"),
            '\n' => out.push_str("\\n"),
            c => out.push(c),
        }
    }
    out.push('"');
    out
}

fn contents<S: MdkStorageProvider>(mdk: &MDK<S>, group_id: &GroupId) -> Vec<(String, String)> {
    let mut v: Vec<_> = mdk
        .get_messages(group_id, None)
        .unwrap()
        .into_iter()
        .map(|m| (m.pubkey.to_hex(), m.content))
        .collect();
    v.sort();
    v
}

/// H1 id of another member's message, H2 absent id, H3 foreign pubkey, H3b upper-case pubkey.
#[test]
fn r04_h1_h2_h3_id_and_pubkey_games() {
    let (alice, alice_mdk, bob, bob_mdk, mallory, mallory_mdk, group_id) = setup_three();
    let _ = alice;

    let mut bob_rumor = create_test_rumor(&bob, "bob original");
    let bob_id = bob_rumor.id();
    let ev = bob_mdk.create_message(&group_id, bob_rumor).unwrap();
    alice_mdk.process_message(&ev).unwrap();
    mallory_mdk.process_message(&ev).unwrap();

    let now = nostr::Timestamp::now().as_secs();
    let m_hex = mallory.public_key().to_hex();

    // H1: Mallory's rumor carrying Bob's message id
    let j = rumor_json(Some(&bob_id.to_hex()), &m_hex, now, 9, "[]", "overwritten by mallory");
    let e1 = raw_app_event(&mallory_mdk, &group_id, &j);
    let r1 = alice_mdk.process_message(&e1);
    println!("H1 -> {r1:?}");
    let stored = alice_mdk.get_message(&group_id, &bob_id).unwrap().unwrap();
    assert_eq!(stored.pubkey, bob.public_key());
    assert_eq!(stored.content, "bob original");

    // H2: no id at all
    let j = rumor_json(None, &m_hex, now, 9, "[]", "no id");
    let e2 = raw_app_event(&mallory_mdk, &group_id, &j);
    match alice_mdk.process_message(&e2).unwrap() {
        MessageProcessingResult::ApplicationMessage(m) => {
            let mut ev = m.event.clone();
            assert_eq!(ev.id, Some(m.id));
            ev.id = None;
            assert_eq!(ev.id(), m.id, "stored id is the hash of the stored fields");
            assert_eq!(m.pubkey, mallory.public_key());
        }
        other => panic!("H2 {other:?}"),
    }

    // H3: Bob's pubkey in Mallory's rumor
    let j = rumor_json(None, &bob.public_key().to_hex(), now, 9, "[]", "as bob");
    let e3 = raw_app_event(&mallory_mdk, &group_id, &j);
    let r3 = alice_mdk.process_message(&e3);
    println!("H3 -> {r3:?}");
    assert!(stored_as(&alice_mdk, &group_id, &bob.public_key()) == vec!["bob original".to_string()]);

    // H3b: upper-case hex of Mallory's own key: same identity, id must still be the hash
    let j = rumor_json(None, &m_hex.to_uppercase(), now, 9, "[]", "UPPER");
    let e4 = raw_app_event(&mallory_mdk, &group_id, &j);
    let r4 = alice_mdk.process_message(&e4);
    println!("H3b -> {r4:?}");
    if let Ok(MessageProcessingResult::ApplicationMessage(m)) = r4 {
        let mut ev = m.event.clone();
        ev.id = None;
        assert_eq!(ev.id(), m.id);
        assert_eq!(m.pubkey, mallory.public_key());
    }
    println!("{:?}", contents(&alice_mdk, &group_id));
}

/// H4: the same MLS ciphertext under a fresh wrapper: at a receiver and at the author.
#[test]
fn r04_h4_rewrapped_ciphertext() {
    let (_alice, alice_mdk, bob, bob_mdk, _mallory, mallory_mdk, group_id) = setup_three();

    let ev = bob_mdk
        .create_message(&group_id, create_test_rumor(&bob, "once"))
        .unwrap();
    alice_mdk.process_message(&ev).unwrap();

    // Mallory, a member, opens the outer layer and wraps the same MLS bytes again.
    let mls_group = mallory_mdk.load_mls_group(&group_id).unwrap().unwrap();
    let inner = mallory_mdk
        .try_decrypt_with_recent_epochs(&mls_group, &ev.content)
        .unwrap();
    let rewrapped = mallory_mdk.build_message_event(&group_id, inner).unwrap();
    assert_ne!(rewrapped.id, ev.id);

    let at_alice = alice_mdk.process_message(&rewrapped);
    let at_bob = bob_mdk.process_message(&rewrapped);
    println!("H4 receiver: {at_alice:?}\nH4 author: {at_bob:?}");
    assert_eq!(alice_mdk.get_messages(&group_id, None).unwrap().len(), 1);
    assert_eq!(bob_mdk.get_messages(&group_id, None).unwrap().len(), 1);
    let m = &alice_mdk.get_messages(&group_id, None).unwrap()[0];
    assert_eq!(m.wrapper_event_id, ev.id);
}

/// H5: a ciphertext of group 1 offered under the h tag (and outer key) of group 2 which shares
/// the members; and the same rumor sent to both groups.
#[test]
fn r04_h5_cross_group() {
    let (alice, alice_mdk, bob, bob_mdk, mallory, mallory_mdk, g1) = setup_three();
    let _ = (&alice, &mallory);
    // second group, same people, created by Alice again
    let bob_kp = create_key_package_event(&bob_mdk, &bob);
    let mallory_kp = create_key_package_event(&mallory_mdk, &mallory);
    let created = alice_mdk
        .create_group(
            &alice.public_key(),
            vec![bob_kp, mallory_kp],
            create_nostr_group_config_data(vec![alice.public_key()]),
        )
        .unwrap();
    let g2 = created.group.mls_group_id.clone();
    alice_mdk.merge_pending_commit(&g2).unwrap();
    for (mdk, rumor) in [(&bob_mdk, &created.welcome_rumors[0]), (&mallory_mdk, &created.welcome_rumors[1])] {
        let w = mdk.process_welcome(&EventId::from_slice(&[7u8; 32]).unwrap(), rumor).unwrap();
        mdk.accept_welcome(&w).unwrap();
    }

    let mut r = create_test_rumor(&bob, "for group one only");
    let rid = r.id();
    let ev = bob_mdk.create_message(&g1, r).unwrap();

    let mls_g1 = mallory_mdk.load_mls_group(&g1).unwrap().unwrap();
    let inner = mallory_mdk.try_decrypt_with_recent_epochs(&mls_g1, &ev.content).unwrap();
    let moved = mallory_mdk.build_message_event(&g2, inner).unwrap();
    let res = alice_mdk.process_message(&moved);
    println!("H5 moved ciphertext -> {res:?}");
    assert!(alice_mdk.get_message(&g2, &rid).unwrap().is_none());
    assert!(alice_mdk.get_messages(&g2, None).unwrap().is_empty());

    // now the genuine one in g1, and a message by Mallory in g2: no cross-talk
    alice_mdk.process_message(&ev).unwrap();
    let mut mr = create_test_rumor(&mallory, "mallory in g2");
    let mid = mr.id();
    let mev = mallory_mdk.create_message(&g2, mr).unwrap();
    alice_mdk.process_message(&mev).unwrap();
    assert!(alice_mdk.get_message(&g1, &mid).unwrap().is_none());
    assert_eq!(alice_mdk.get_message(&g1, &rid).unwrap().unwrap().content, "for group one only");
}

fn sqlite_mdk(dir: &tempfile::TempDir, name: &str) -> MDK<MdkSqliteStorage> {
    MDK::new(MdkSqliteStorage::new_unencrypted(dir.path().join(name)).unwrap())
}

/// H7 extreme created_at, H10 oversized tags, on SQLite: is anything half-stored, and what is
/// the id of what is stored?
#[test]
fn r04_h7_h10_extremes_on_sqlite() {
    let dir = tempfile::tempdir().unwrap();
    let alice = Keys::generate();
    let mallory = Keys::generate();
    let alice_mdk = sqlite_mdk(&dir, "a.db");
    let mallory_mdk = sqlite_mdk(&dir, "m.db");
    let kp = create_key_package_event(&mallory_mdk, &mallory);
    let created = alice_mdk
        .create_group(&alice.public_key(), vec![kp], create_nostr_group_config_data(vec![alice.public_key()]))
        .unwrap();
    let g = created.group.mls_group_id.clone();
    alice_mdk.merge_pending_commit(&g).unwrap();
    let w = mallory_mdk.process_welcome(&EventId::all_zeros(), &created.welcome_rumors[0]).unwrap();
    mallory_mdk.accept_welcome(&w).unwrap();

    let m_hex = mallory.public_key().to_hex();
    for (label, created_at) in [("i64::MAX", i64::MAX as u64), ("i64::MAX+1", i64::MAX as u64 + 1), ("u64::MAX", u64::MAX), ("0", 0)] {
        let j = rumor_json(None, &m_hex, created_at, 9, "[]", label);
        let e = raw_app_event(&mallory_mdk, &g, &j);
        let r = alice_mdk.process_message(&e);
        println!("H7 created_at={label}: {:?}", r.as_ref().map(|x| format!("{x:?}").chars().take(60).collect::<String>()));
    }
    // tags as large as the NIP-44 layer lets through (65535 bytes of MLS message): the SQLite
    // limits (100 KB tags / event JSON) cannot be reached from the wire
    let big = format!("[[\"t\",\"{}\"]]", "x".repeat(60_000));
    let j = rumor_json(None, &m_hex, 1_700_000_000, 9, &big, "big tags");
    let e = raw_app_event(&mallory_mdk, &g, &j);
    let r = alice_mdk.process_message(&e);
    println!("H10 big tags: {:?}", r.as_ref().map(|x| format!("{x:?}").chars().take(60).collect::<String>()));

    let group = alice_mdk.get_group(&g).unwrap().unwrap();
    println!("last_message_id={:?} at={:?}", group.last_message_id, group.last_message_at);
    for m in alice_mdk.get_messages(&g, None).unwrap() {
        let mut ev = m.event.clone();
        ev.id = None;
        assert_eq!(ev.id(), m.id);
        assert_eq!(m.event.created_at, m.created_at);
        assert_eq!(m.event.content, m.content);
        assert_eq!(m.pubkey, mallory.public_key());
        println!("stored: created_at={} content={}", m.created_at.as_secs(), m.content);
    }
    if let Some(id) = group.last_message_id {
        assert!(alice_mdk.get_message(&g, &id).unwrap().is_some(), "last_message_id points at a stored message");
    }
}

/// H6 (local API, not a remote attack): create_message neither checks a pre-set rumor id nor the
/// rumor pubkey, unlike the receiving path. FAILS on the unmodified tree.
#[test]
fn r04_h6_create_message_trusts_preset_id_and_pubkey() {
    let (alice, alice_mdk, bob, bob_mdk, _mallory, _mallory_mdk, group_id) = setup_three();

    let mut bob_rumor = create_test_rumor(&bob, "bob original");
    let bob_id = bob_rumor.id();
    let ev = bob_mdk.create_message(&group_id, bob_rumor).unwrap();
    alice_mdk.process_message(&ev).unwrap();

    // Alice's application hands over a rumor whose id field is stale/wrong: here Bob's id.
    let mut r = create_test_rumor(&alice, "alice text");
    r.id = Some(bob_id);
    let out = alice_mdk.create_message(&group_id, r);
    println!("create_message with foreign id -> {:?}", out.as_ref().map(|e| e.id));
    let stored = alice_mdk.get_message(&group_id, &bob_id).unwrap().unwrap();
    println!("alice's store under bob's id: pubkey={} content={:?}", stored.pubkey, stored.content);
    if let Ok(ev) = &out {
        println!("bob receiving it -> {:?}", bob_mdk.process_message(ev));
    }

    // and a rumor with someone else's pubkey
    let r2 = create_test_rumor(&bob, "alice writing as bob, locally");
    let out2 = alice_mdk.create_message(&group_id, r2);
    println!("create_message with foreign pubkey -> {:?}", out2.as_ref().map(|e| e.id));
    println!("alice stores as bob's: {:?}", stored_as(&alice_mdk, &group_id, &bob.public_key()));

    assert_eq!(stored.content, "bob original", "create_message replaced Bob's stored message");
    assert_eq!(stored.pubkey, bob.public_key());
}

/// H8: an ex-member inside the retention window writes with the secrets of the epoch she was
/// still a member of. The message is accepted (indistinguishable from a delayed one) and is
/// attributed to herself.
#[test]
fn r04_h8_ex_member_old_epoch() {
    let (_alice, alice_mdk, _bob, bob_mdk, mallory, mallory_mdk, group_id) = setup_three();
    let rm = alice_mdk.remove_members(&group_id, &[mallory.public_key()]).unwrap();
    alice_mdk.merge_pending_commit(&group_id).unwrap();
    bob_mdk.process_message(&rm.evolution_event).unwrap();
    // Mallory does not process her removal, and writes in the old epoch.
    let e = mallory_mdk
        .create_message(&group_id, create_test_rumor(&mallory, "after removal"))
        .unwrap();
    let r = bob_mdk.process_message(&e);
    println!("H8 -> {r:?}");
    for m in bob_mdk.get_messages(&group_id, None).unwrap() {
        assert_eq!(m.pubkey, mallory.public_key());
    }
    // and she cannot write as somebody else from there
    let j = rumor_json(None, &_bob.public_key().to_hex(), 1_700_000_000, 9, "[]", "ex-member as bob");
    let e = raw_app_event(&mallory_mdk, &group_id, &j);
    let r = alice_mdk.process_message(&e);
    println!("H8b -> {r:?}");
    assert!(stored_as(&alice_mdk, &group_id, &_bob.public_key()).is_empty());
    let _ = alice_mdk.storage().find_processed_message_by_event_id(&e.id);
}

/// H9b (side effect of H9, outside C04): the forged leaf can just as well carry the ADMIN's
/// identity; admin rights are looked up by credential identity, so Mallory's leaf is an admin.
#[test]
fn r04_h9b_forged_leaf_with_admin_identity_is_admin() {
    let (alice, alice_mdk, bob, bob_mdk, _mallory, mallory_mdk, group_id) = setup_three();
    let shadow = create_test_mdk();
    let forged_kp = forged_key_package(&shadow, &alice.public_key());
    let p = add_proposal_event(&mallory_mdk, &group_id, &forged_kp);
    alice_mdk.process_message(&p).unwrap();
    bob_mdk.process_message(&p).unwrap();

    let dave = Keys::generate();
    let dave_mdk = create_test_mdk();
    let add = alice_mdk
        .add_members(&group_id, &[create_key_package_event(&dave_mdk, &dave)])
        .unwrap();
    alice_mdk.merge_pending_commit(&group_id).unwrap();
    bob_mdk.process_message(&add.evolution_event).unwrap();
    let w = shadow
        .process_welcome(&EventId::all_zeros(), &add.welcome_rumors.as_ref().unwrap()[0])
        .unwrap();
    shadow.accept_welcome(&w).unwrap();

    // Mallory's forged leaf removes Bob.
    let rm = shadow.remove_members(&group_id, &[bob.public_key()]);
    println!("forged leaf remove_members -> {:?}", rm.as_ref().map(|r| r.evolution_event.id));
    if let Ok(rm) = rm {
        let r = alice_mdk.process_message(&rm.evolution_event);
        println!("alice processing the forged admin's commit -> {r:?}");
        let members = alice_mdk.get_members(&group_id).unwrap();
        println!("bob still a member at alice: {}", members.contains(&bob.public_key()));
    }
}

/// H9c: the queued forged Add is swept into the tree by ANY admin commit, never approved as
/// such: a rename of the group, and the automatic commit of somebody else's leave proposal.
#[test]
fn r04_h9c_any_admin_commit_sweeps_the_forged_add() {
    use crate::groups::NostrGroupDataUpdate;

    let identities_of = |mdk: &Mdk, g: &GroupId| -> Vec<String> {
        let grp = mdk.load_mls_group(g).unwrap().unwrap();
        grp.members()
            .map(|m| {
                let c = openmls::prelude::BasicCredential::try_from(m.credential.clone()).unwrap();
                hex::encode(c.identity())[..8].to_string()
            })
            .collect()
    };

    // (a) rename
    {
        let (_alice, alice_mdk, bob, bob_mdk, _mallory, mallory_mdk, g) = setup_three();
        let shadow = create_test_mdk();
        let p = add_proposal_event(&mallory_mdk, &g, &forged_key_package(&shadow, &bob.public_key()));
        alice_mdk.process_message(&p).unwrap();
        bob_mdk.process_message(&p).unwrap();
        let up = alice_mdk
            .update_group_data(&g, NostrGroupDataUpdate::new().name("renamed"))
            .expect("rename");
        alice_mdk.merge_pending_commit(&g).unwrap();
        let r = bob_mdk.process_message(&up.evolution_event);
        println!("(a) bob processes the rename commit: {r:?}");
        println!("(a) leaves at alice after a RENAME: {:?} (bob = {})", identities_of(&alice_mdk, &g), &bob.public_key().to_hex()[..8]);
        println!("(a) leaves at bob   after a RENAME: {:?}", identities_of(&bob_mdk, &g));
    }
    // (b) Bob leaves; Alice's client commits his leave automatically while processing it
    {
        let (alice, alice_mdk, bob, bob_mdk, _mallory, mallory_mdk, g) = setup_three();
        let shadow = create_test_mdk();
        let p = add_proposal_event(&mallory_mdk, &g, &forged_key_package(&shadow, &alice.public_key()));
        alice_mdk.process_message(&p).unwrap();
        bob_mdk.process_message(&p).unwrap();
        let leave = bob_mdk.leave_group(&g).expect("bob leaves");
        let r = alice_mdk.process_message(&leave.evolution_event).expect("alice processes leave");
        if let MessageProcessingResult::Proposal(res) = r {
            alice_mdk.merge_pending_commit(&g).unwrap();
            let at_mallory = mallory_mdk.process_message(&leave.evolution_event);
            let at_mallory2 = mallory_mdk.process_message(&res.evolution_event);
            println!("(b) mallory: {at_mallory:?} / {at_mallory2:?}");
            println!("(b) leaves at alice after auto-committing BOB'S LEAVE: {:?} (alice = {}, bob = {})",
                identities_of(&alice_mdk, &g), &alice.public_key().to_hex()[..8], &bob.public_key().to_hex()[..8]);
        } else {
            println!("(b) unexpected: {r:?}");
        }
    }
}
