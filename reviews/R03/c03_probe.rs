//! Exploratory probes for property C03 (only members of the sending epoch obtain plaintext).
#![allow(dead_code)]

use mdk_core::MDK;
use mdk_core::groups::{NostrGroupConfigData, NostrGroupDataUpdate};
use mdk_core::messages::MessageProcessingResult;
use mdk_memory_storage::MdkMemoryStorage;
use mdk_storage_traits::GroupId;
use mdk_storage_traits::groups::types::GroupState;
use nostr::{Event, EventBuilder, EventId, Keys, Kind, PublicKey, RelayUrl, UnsignedEvent};

type Client = MDK<MdkMemoryStorage>;

struct Peer {
    name: &'static str,
    keys: Keys,
    mdk: Client,
}

impl Peer {
    fn new(name: &'static str) -> Self {
        Self {
            name,
            keys: Keys::generate(),
            mdk: MDK::new(MdkMemoryStorage::default()),
        }
    }
    fn pk(&self) -> PublicKey {
        self.keys.public_key()
    }
    fn kp(&self) -> Event {
        let relays = vec![RelayUrl::parse("wss://test.relay").unwrap()];
        let (hex, tags, _) = self
            .mdk
            .create_key_package_for_event(&self.pk(), relays)
            .unwrap();
        EventBuilder::new(Kind::MlsKeyPackage, hex)
            .tags(tags)
            .sign_with_keys(&self.keys)
            .unwrap()
    }
    fn rumor(&self, content: &str) -> UnsignedEvent {
        EventBuilder::new(Kind::Custom(9), content).build(self.pk())
    }
    fn send(&self, gid: &GroupId, content: &str) -> Event {
        self.mdk
            .create_message(gid, self.rumor(content))
            .unwrap_or_else(|e| panic!("{} cannot send {content}: {e:?}", self.name))
    }
    fn join(&self, rumor: &UnsignedEvent) {
        let w = self
            .mdk
            .process_welcome(&EventId::from_slice(Keys::generate().public_key().as_bytes()).unwrap(), rumor)
            .unwrap_or_else(|e| panic!("{} cannot process welcome: {e:?}", self.name));
        self.mdk.accept_welcome(&w).unwrap();
    }
    fn contents(&self, gid: &GroupId) -> Vec<String> {
        match self.mdk.get_messages(gid, None) {
            Ok(v) => v.into_iter().map(|m| m.content).collect(),
            Err(_) => vec![],
        }
    }
    fn state(&self, gid: &GroupId) -> Option<GroupState> {
        self.mdk.get_group(gid).unwrap().map(|g| g.state)
    }
    fn epoch(&self, gid: &GroupId) -> u64 {
        self.mdk.get_group(gid).unwrap().unwrap().epoch
    }
    fn feed(&self, ev: &Event) -> String {
        match self.mdk.process_message(ev) {
            Ok(MessageProcessingResult::ApplicationMessage(m)) => format!("App({})", m.content),
            Ok(r) => format!("{r:?}"),
            Err(e) => format!("Err({e:?})"),
        }
    }
}

fn config(admins: Vec<PublicKey>) -> NostrGroupConfigData {
    NostrGroupConfigData::new(
        "g".to_owned(),
        "d".to_owned(),
        None,
        None,
        None,
        vec![RelayUrl::parse("wss://test.relay").unwrap()],
        admins,
    )
}

/// H1: baseline removal; evicted member replays everything in several orders.
#[test]
fn h1_removed_member_replays_everything() {
    let a = Peer::new("alice");
    let b = Peer::new("bob");
    let c = Peer::new("carol");
    let o = Peer::new("outsider");

    let mut wire: Vec<Event> = vec![];
    let cr = a
        .mdk
        .create_group(&a.pk(), vec![b.kp(), c.kp()], config(vec![a.pk()]))
        .unwrap();
    let gid = cr.group.mls_group_id.clone();
    a.mdk.merge_pending_commit(&gid).unwrap();
    b.join(&cr.welcome_rumors[0]);
    c.join(&cr.welcome_rumors[1]);

    let m1 = a.send(&gid, "e1-from-alice");
    wire.push(m1.clone());
    // remove bob
    let rm = a.mdk.remove_members(&gid, &[b.pk()]).unwrap();
    a.mdk.merge_pending_commit(&gid).unwrap();
    wire.push(rm.evolution_event.clone());
    println!("carol rm: {}", c.feed(&rm.evolution_event));
    let m2 = a.send(&gid, "e2-secret-after-removal");
    wire.push(m2.clone());
    let m3 = c.send(&gid, "e2-secret-from-carol");
    wire.push(m3.clone());
    // self update by carol -> epoch 3
    let su = c.mdk.self_update(&gid).unwrap();
    c.mdk.merge_pending_commit(&gid).unwrap();
    wire.push(su.evolution_event.clone());
    println!("alice su: {}", a.feed(&su.evolution_event));
    let m4 = a.send(&gid, "e3-secret");
    wire.push(m4.clone());

    // bob: reversed order first, then forward, then forward again
    for ev in wire.iter().rev() {
        println!("bob rev: {}", b.feed(ev));
    }
    for ev in wire.iter() {
        println!("bob fwd: {}", b.feed(ev));
    }
    for ev in wire.iter() {
        println!("bob fwd2: {}", b.feed(ev));
    }
    for ev in wire.iter() {
        println!("outsider: {}", o.feed(ev));
    }
    println!("bob contents {:?} state {:?}", b.contents(&gid), b.state(&gid));
    let bc = b.contents(&gid);
    assert!(!bc.iter().any(|s| s.contains("secret")), "leak: {bc:?}");
    assert!(o.contents(&gid).is_empty());
}

/// H2: leave proposal committed by admin, then replays; then re-invite; gap-epoch messages.
#[test]
fn h2_leave_then_reinvite_gap_messages() {
    let a = Peer::new("alice");
    let b = Peer::new("bob");
    let c = Peer::new("carol");

    let cr = a
        .mdk
        .create_group(&a.pk(), vec![b.kp(), c.kp()], config(vec![a.pk()]))
        .unwrap();
    let gid = cr.group.mls_group_id.clone();
    a.mdk.merge_pending_commit(&gid).unwrap();
    b.join(&cr.welcome_rumors[0]);
    c.join(&cr.welcome_rumors[1]);

    let leave = b.mdk.leave_group(&gid).unwrap();
    println!("carol leave: {}", c.feed(&leave.evolution_event));
    let res = a.mdk.process_message(&leave.evolution_event).unwrap();
    let commit = match res {
        MessageProcessingResult::Proposal(u) => u.evolution_event,
        other => panic!("unexpected {other:?}"),
    };
    a.mdk.merge_pending_commit(&gid).unwrap();
    println!("carol commit: {}", c.feed(&commit));
    println!("bob own leave: {}", b.feed(&leave.evolution_event));
    println!("bob commit: {}", b.feed(&commit));
    println!("bob state {:?}", b.state(&gid));
    assert_eq!(b.state(&gid), Some(GroupState::Inactive));
    assert!(b.mdk.create_message(&gid, b.rumor("x")).is_err());

    let gap = a.send(&gid, "gap-secret");
    println!("carol gap: {}", c.feed(&gap));
    println!("bob gap: {}", b.feed(&gap));

    // re-invite bob with the same (last resort) key package and with a fresh one
    let add = a.mdk.add_members(&gid, &[b.kp()]).unwrap();
    a.mdk.merge_pending_commit(&gid).unwrap();
    println!("carol add: {}", c.feed(&add.evolution_event));
    b.join(&add.welcome_rumors.as_ref().unwrap()[0]);
    println!("bob state after rejoin {:?} epoch {}", b.state(&gid), b.epoch(&gid));
    println!("bob gap again: {}", b.feed(&gap));
    println!("bob add commit: {}", b.feed(&add.evolution_event));
    println!("bob old commit: {}", b.feed(&commit));
    let after = c.send(&gid, "after-rejoin");
    println!("bob after: {}", b.feed(&after));
    let bc = b.contents(&gid);
    println!("bob contents {bc:?}");
    assert!(!bc.iter().any(|s| s.contains("gap-secret")), "leak: {bc:?}");
    assert!(bc.iter().any(|s| s == "after-rejoin"));
}

/// H3: removal racing with another commit; removed member sees the loser first.
#[test]
fn h3_removal_race() {
    let a = Peer::new("alice");
    let b = Peer::new("bob");
    let c = Peer::new("carol");

    let cr = a
        .mdk
        .create_group(&a.pk(), vec![b.kp(), c.kp()], config(vec![a.pk(), c.pk()]))
        .unwrap();
    let gid = cr.group.mls_group_id.clone();
    a.mdk.merge_pending_commit(&gid).unwrap();
    b.join(&cr.welcome_rumors[0]);
    c.join(&cr.welcome_rumors[1]);

    let rm = a.mdk.remove_members(&gid, &[b.pk()]).unwrap().evolution_event;
    let su = c.mdk.self_update(&gid).unwrap().evolution_event;
    println!("rm {:?} {} su {:?} {}", rm.created_at, rm.id, su.created_at, su.id);
    let rm_better = (rm.created_at, rm.id.to_hex()) < (su.created_at, su.id.to_hex());
    println!("rm_better={rm_better}");
    // bob processes su first then rm
    println!("bob su: {}", b.feed(&su));
    println!("bob rm: {}", b.feed(&rm));
    println!("bob state {:?} epoch {}", b.state(&gid), b.epoch(&gid));
    if rm_better {
        assert_eq!(b.state(&gid), Some(GroupState::Inactive));
        assert!(b.mdk.create_message(&gid, b.rumor("x")).is_err());
        // more traffic after the rollback
        println!("bob su again: {}", b.feed(&su));
        println!("bob rm again: {}", b.feed(&rm));
        println!("bob state {:?} epoch {}", b.state(&gid), b.epoch(&gid));
        assert_eq!(b.state(&gid), Some(GroupState::Inactive));
        assert!(b.mdk.create_message(&gid, b.rumor("x")).is_err());
    }
}

/// H4: group data update (nostr group id rotation) + removal + lookback
#[test]
fn h4_rotation_and_removal() {
    let a = Peer::new("alice");
    let b = Peer::new("bob");
    let c = Peer::new("carol");
    let cr = a
        .mdk
        .create_group(&a.pk(), vec![b.kp(), c.kp()], config(vec![a.pk()]))
        .unwrap();
    let gid = cr.group.mls_group_id.clone();
    a.mdk.merge_pending_commit(&gid).unwrap();
    b.join(&cr.welcome_rumors[0]);
    c.join(&cr.welcome_rumors[1]);
    let mut wire = vec![];
    let rot = a
        .mdk
        .update_group_data(&gid, NostrGroupDataUpdate::new().nostr_group_id([7u8; 32]))
        .unwrap()
        .evolution_event;
    a.mdk.merge_pending_commit(&gid).unwrap();
    wire.push(rot.clone());
    println!("carol rot {}", c.feed(&rot));
    let rm = a.mdk.remove_members(&gid, &[b.pk()]).unwrap().evolution_event;
    a.mdk.merge_pending_commit(&gid).unwrap();
    wire.push(rm.clone());
    println!("carol rm {}", c.feed(&rm));
    let s = c.send(&gid, "post-secret");
    wire.push(s.clone());
    println!("alice s {}", a.feed(&s));
    for ev in &wire {
        println!("bob {}", b.feed(ev));
    }
    for ev in wire.iter().rev() {
        println!("bob {}", b.feed(ev));
    }
    println!("bob state {:?} contents {:?}", b.state(&gid), b.contents(&gid));
    assert_eq!(b.state(&gid), Some(GroupState::Inactive));
    assert!(b.contents(&gid).is_empty());
}

/// H5: evicted member holding an own pending commit merges it afterwards.
#[test]
fn h5_pending_commit_then_evicted_then_merge() {
    let a = Peer::new("alice");
    let b = Peer::new("bob");
    let c = Peer::new("carol");
    let cr = a
        .mdk
        .create_group(&a.pk(), vec![b.kp(), c.kp()], config(vec![a.pk()]))
        .unwrap();
    let gid = cr.group.mls_group_id.clone();
    a.mdk.merge_pending_commit(&gid).unwrap();
    b.join(&cr.welcome_rumors[0]);
    c.join(&cr.welcome_rumors[1]);

    // make the removal strictly better than bob's own self update
    let rm = a.mdk.remove_members(&gid, &[b.pk()]).unwrap().evolution_event;
    a.mdk.merge_pending_commit(&gid).unwrap();
    let su = b.mdk.self_update(&gid).unwrap().evolution_event;
    println!("bob rm: {}", b.feed(&rm));
    println!("bob state {:?}", b.state(&gid));
    println!("bob merge: {:?}", b.mdk.merge_pending_commit(&gid));
    println!("bob own su: {}", b.feed(&su));
    println!("bob clear: {:?}", b.mdk.clear_pending_commit(&gid));
    println!("bob state {:?}", b.state(&gid));
    let s = a.send(&gid, "post-secret");
    println!("bob s: {}", b.feed(&s));
    assert_eq!(b.state(&gid), Some(GroupState::Inactive));
    assert!(b.mdk.create_message(&gid, b.rumor("x")).is_err());
    assert!(b.contents(&gid).is_empty());
}

/// H6: admin leaves, other admin auto-commits; the leaver processes in odd orders.
#[test]
fn h6_admin_leaves() {
    let a = Peer::new("alice");
    let b = Peer::new("bob");
    let c = Peer::new("carol");
    let cr = a
        .mdk
        .create_group(&a.pk(), vec![b.kp(), c.kp()], config(vec![a.pk(), b.pk()]))
        .unwrap();
    let gid = cr.group.mls_group_id.clone();
    a.mdk.merge_pending_commit(&gid).unwrap();
    b.join(&cr.welcome_rumors[0]);
    c.join(&cr.welcome_rumors[1]);

    let leave = a.mdk.leave_group(&gid).unwrap().evolution_event;
    let commit = match b.mdk.process_message(&leave).unwrap() {
        MessageProcessingResult::Proposal(u) => u.evolution_event,
        o => panic!("{o:?}"),
    };
    b.mdk.merge_pending_commit(&gid).unwrap();
    println!("carol leave {}", c.feed(&leave));
    println!("carol commit {}", c.feed(&commit));
    // alice sees the commit first, then her own proposal
    println!("alice commit {}", a.feed(&commit));
    println!("alice leave {}", a.feed(&leave));
    println!("alice state {:?}", a.state(&gid));
    let s = b.send(&gid, "post-secret");
    println!("alice s {}", a.feed(&s));
    assert_eq!(a.state(&gid), Some(GroupState::Inactive));
    assert!(a.mdk.create_message(&gid, a.rumor("x")).is_err());
    assert!(a.contents(&gid).is_empty());
}

/// H7: new member replays all history from before its join
#[test]
fn h7_new_member_prejoin() {
    let a = Peer::new("alice");
    let b = Peer::new("bob");
    let d = Peer::new("dave");
    let cr = a
        .mdk
        .create_group(&a.pk(), vec![b.kp()], config(vec![a.pk()]))
        .unwrap();
    let gid = cr.group.mls_group_id.clone();
    a.mdk.merge_pending_commit(&gid).unwrap();
    b.join(&cr.welcome_rumors[0]);
    let mut wire = vec![];
    wire.push(a.send(&gid, "pre-secret-1"));
    let su = b.mdk.self_update(&gid).unwrap().evolution_event;
    b.mdk.merge_pending_commit(&gid).unwrap();
    println!("alice su {}", a.feed(&su));
    wire.push(su);
    wire.push(b.send(&gid, "pre-secret-2"));
    let add = a.mdk.add_members(&gid, &[d.kp()]).unwrap();
    a.mdk.merge_pending_commit(&gid).unwrap();
    wire.push(add.evolution_event.clone());
    // dave is fed everything BEFORE accepting: pending group only
    let w = d
        .mdk
        .process_welcome(&EventId::all_zeros(), &add.welcome_rumors.as_ref().unwrap()[0])
        .unwrap();
    for ev in &wire {
        println!("dave pending {}", d.feed(ev));
    }
    println!("dave state {:?}", d.state(&gid));
    d.mdk.accept_welcome(&w).unwrap();
    wire.push(a.send(&gid, "post-join"));
    for ev in wire.iter().rev() {
        println!("dave {}", d.feed(ev));
    }
    for ev in wire.iter() {
        println!("dave {}", d.feed(ev));
    }
    let dc = d.contents(&gid);
    println!("dave contents {dc:?}");
    assert!(!dc.iter().any(|s| s.contains("pre-secret")));
}

fn resign(ev: &Event, ts: u64) -> Event {
    EventBuilder::new(ev.kind, ev.content.clone())
        .tags(ev.tags.iter().cloned())
        .custom_created_at(nostr::Timestamp::from(ts))
        .sign_with_keys(&Keys::generate())
        .unwrap()
}

/// H8: evicted by the losing commit, re-invited later, then the winning commit of the old
/// race shows up and rolls the client back into its old incarnation.
#[test]
fn h8_rollback_after_rejoin() {
    let a = Peer::new("alice");
    let b = Peer::new("bob");
    let c = Peer::new("carol");
    let cr = a
        .mdk
        .create_group(&a.pk(), vec![b.kp(), c.kp()], config(vec![a.pk(), c.pk()]))
        .unwrap();
    let gid = cr.group.mls_group_id.clone();
    a.mdk.merge_pending_commit(&gid).unwrap();
    b.join(&cr.welcome_rumors[0]);
    c.join(&cr.welcome_rumors[1]);

    let r = a.mdk.remove_members(&gid, &[b.pk()]).unwrap().evolution_event;
    let y0 = c.mdk.self_update(&gid).unwrap().evolution_event;
    let y = resign(&y0, r.created_at.as_secs() - 10); // y is better
    // canonical: y wins
    c.mdk.merge_pending_commit(&gid).unwrap();
    println!("alice y {}", a.feed(&y));
    println!("alice epoch {}", a.epoch(&gid));
    let r2 = a.mdk.remove_members(&gid, &[b.pk()]).unwrap().evolution_event;
    a.mdk.merge_pending_commit(&gid).unwrap();
    println!("carol r2 {}", c.feed(&r2));
    let gap = c.send(&gid, "gap-secret");
    println!("alice gap {}", a.feed(&gap));
    let add = a.mdk.add_members(&gid, &[b.kp()]).unwrap();
    a.mdk.merge_pending_commit(&gid).unwrap();
    println!("carol add {}", c.feed(&add.evolution_event));
    let post = c.send(&gid, "post-rejoin");

    // bob: loser first
    println!("bob r {}", b.feed(&r));
    println!("bob state {:?}", b.state(&gid));
    b.join(&add.welcome_rumors.as_ref().unwrap()[0]);
    println!("bob state {:?} epoch {}", b.state(&gid), b.epoch(&gid));
    println!("bob post {}", b.feed(&post));
    println!("bob y {}", b.feed(&y));
    println!("bob state {:?} epoch {}", b.state(&gid), b.epoch(&gid));
    println!("bob gap {}", b.feed(&gap));
    println!("bob r2 {}", b.feed(&r2));
    println!("bob state {:?} epoch {}", b.state(&gid), b.epoch(&gid));
    println!("bob gap {}", b.feed(&gap));
    println!("bob add {}", b.feed(&add.evolution_event));
    println!("bob post {}", b.feed(&post));
    let bc = b.contents(&gid);
    println!("bob contents {bc:?}");
    assert!(!bc.iter().any(|s| s.contains("gap-secret")));
}
