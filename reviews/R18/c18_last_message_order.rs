//! C18: message listing is one total order; pages and last-message pointer agree.
//!
//! Each test drives a history through the public API and, after every step, checks
//! * the listing in both sort modes is sorted by the documented key,
//! * consecutive pages partition the listing,
//! * `Group::last_message_*` designates the first non-invalidated message of the default
//!   order (or nothing if there is none).

use mdk_core::prelude::*;
use mdk_memory_storage::{MdkMemoryStorage, ValidationLimits};
use mdk_sqlite_storage::MdkSqliteStorage;
use mdk_storage_traits::MdkStorageProvider;
use mdk_storage_traits::groups::{MAX_MESSAGE_LIMIT, MessageSortOrder, Pagination};
use mdk_storage_traits::messages::types::{Message, MessageState};
use nostr::event::builder::EventBuilder;
use nostr::{Event, EventId, Keys, Kind, RelayUrl, Timestamp, UnsignedEvent};

fn key_package_event<S: MdkStorageProvider>(mdk: &MDK<S>, keys: &Keys) -> Event {
    let relay = RelayUrl::parse("ws://localhost:8080").unwrap();
    let (encoded, tags, _) = mdk
        .create_key_package_for_event(&keys.public_key(), [relay])
        .expect("key package");
    EventBuilder::new(Kind::MlsKeyPackage, encoded)
        .tags(tags)
        .sign_with_keys(keys)
        .expect("sign key package")
}

fn sqlite() -> MdkSqliteStorage {
    // keep the directory for the lifetime of the test process
    let dir = Box::leak(Box::new(tempfile::tempdir().expect("tempdir")));
    MdkSqliteStorage::new_unencrypted(dir.path().join("mdk.sqlite")).expect("sqlite storage")
}

fn config(admins: Vec<nostr::PublicKey>) -> NostrGroupConfigData {
    NostrGroupConfigData::new(
        "g".to_owned(),
        "d".to_owned(),
        None,
        None,
        None,
        vec![RelayUrl::parse("ws://localhost:8080").unwrap()],
        admins,
    )
}

fn rumor(keys: &Keys, content: &str, created_at: u64) -> UnsignedEvent {
    EventBuilder::new(Kind::Custom(9), content)
        .custom_created_at(Timestamp::from(created_at))
        .build(keys.public_key())
}

fn full_list<S: MdkStorageProvider>(
    mdk: &MDK<S>,
    gid: &GroupId,
    sort: MessageSortOrder,
) -> Vec<Message> {
    let mut all = Vec::new();
    let mut offset = 0;
    loop {
        let page = mdk
            .get_messages(
                gid,
                Some(Pagination::with_sort_order(Some(1000), Some(offset), sort)),
            )
            .expect("get_messages");
        let n = page.len();
        all.extend(page);
        if n < 1000 {
            break;
        }
        offset += n;
    }
    all
}

/// The C18 check, to be run after every step of a history.
fn check_c18<S: MdkStorageProvider>(mdk: &MDK<S>, gid: &GroupId, step: &str) {
    for sort in [
        MessageSortOrder::CreatedAtFirst,
        MessageSortOrder::ProcessedAtFirst,
    ] {
        let all = full_list(mdk, gid, sort);
        // sorted, strictly (total order, no repeats)
        for w in all.windows(2) {
            let ord = match sort {
                MessageSortOrder::CreatedAtFirst => w[0].display_order_cmp(&w[1]),
                MessageSortOrder::ProcessedAtFirst => w[0].processed_at_order_cmp(&w[1]),
            };
            assert!(ord.is_gt(), "[{step}] listing not strictly descending");
        }
        // pages partition the list
        for limit in [1usize, 2, 3, 7, MAX_MESSAGE_LIMIT] {
            let mut got: Vec<EventId> = Vec::new();
            let mut offset = 0;
            loop {
                let page = mdk
                    .get_messages(
                        gid,
                        Some(Pagination::with_sort_order(Some(limit), Some(offset), sort)),
                    )
                    .expect("page");
                if page.is_empty() {
                    break;
                }
                offset += page.len();
                got.extend(page.iter().map(|m| m.id));
            }
            let want: Vec<EventId> = all.iter().map(|m| m.id).collect();
            assert_eq!(got, want, "[{step}] pages (limit {limit}) do not partition");
        }
        // first element == get_last_message
        let last = mdk.get_last_message(gid, sort).expect("last");
        assert_eq!(
            last.map(|m| m.id),
            all.first().map(|m| m.id),
            "[{step}] get_last_message != head of list"
        );
    }
    // out-of-range limits refused
    assert!(
        mdk.get_messages(gid, Some(Pagination::new(Some(0), Some(0))))
            .is_err()
    );
    assert!(
        mdk.get_messages(
            gid,
            Some(Pagination::new(Some(MAX_MESSAGE_LIMIT + 1), Some(0)))
        )
        .is_err()
    );

    // pointer
    let all = full_list(mdk, gid, MessageSortOrder::CreatedAtFirst);
    let head = all
        .iter()
        .find(|m| m.state != MessageState::EpochInvalidated);
    let group = mdk.get_group(gid).expect("get_group").expect("group");
    assert_eq!(
        group.last_message_id,
        head.map(|m| m.id),
        "[{step}] last_message_id does not designate the head of the default order \
         ({} messages listed, {} not invalidated)",
        all.len(),
        all.iter()
            .filter(|m| m.state != MessageState::EpochInvalidated)
            .count()
    );
    assert_eq!(
        group.last_message_at,
        head.map(|m| m.created_at),
        "[{step}] last_message_at"
    );
    assert_eq!(
        group.last_message_processed_at,
        head.map(|m| m.processed_at),
        "[{step}] last_message_processed_at"
    );
}

// ---------------------------------------------------------------------------------------------
// H1: a member is removed and later invited again. Merely *processing* the new invitation
// (no consent yet) must not make the pointer disagree with the listing.
// ---------------------------------------------------------------------------------------------
fn reinvite_after_removal<S: MdkStorageProvider>(alice: MDK<S>, bob: MDK<S>) {
    let alice_keys = Keys::generate();
    let bob_keys = Keys::generate();

    let created = alice
        .create_group(
            &alice_keys.public_key(),
            vec![key_package_event(&bob, &bob_keys)],
            config(vec![alice_keys.public_key()]),
        )
        .expect("create_group");
    let gid = created.group.mls_group_id.clone();
    alice.merge_pending_commit(&gid).expect("merge");

    let w = bob
        .process_welcome(&EventId::all_zeros(), &created.welcome_rumors[0])
        .expect("process_welcome");
    bob.accept_welcome(&w).expect("accept");
    check_c18(&bob, &gid, "joined");

    // traffic with colliding created_at
    for (i, ts) in [100u64, 100, 90, 100, 120, 120].into_iter().enumerate() {
        let ev = alice
            .create_message(&gid, rumor(&alice_keys, &format!("a{i}"), ts))
            .expect("create_message");
        bob.process_message(&ev).expect("process_message");
        check_c18(&bob, &gid, &format!("bob got a{i}"));
        check_c18(&alice, &gid, &format!("alice sent a{i}"));
    }
    let ev = bob
        .create_message(&gid, rumor(&bob_keys, "b0", 120))
        .expect("bob create_message");
    check_c18(&bob, &gid, "bob sent b0");
    alice.process_message(&ev).expect("alice processes b0");
    check_c18(&alice, &gid, "alice got b0");

    // Alice removes Bob; Bob learns it
    let removal = alice
        .remove_members(&gid, &[bob_keys.public_key()])
        .expect("remove_members");
    alice.merge_pending_commit(&gid).expect("merge removal");
    bob.process_message(&removal.evolution_event)
        .expect("bob processes his removal");
    assert_eq!(
        bob.get_group(&gid).unwrap().unwrap().state,
        group_types::GroupState::Inactive
    );
    check_c18(&bob, &gid, "bob removed");
    let before = full_list(&bob, &gid, MessageSortOrder::CreatedAtFirst).len();
    assert_eq!(before, 7);

    // Alice invites Bob again; Bob's client receives the invitation
    let readd = alice
        .add_members(&gid, &[key_package_event(&bob, &bob_keys)])
        .expect("add_members");
    alice.merge_pending_commit(&gid).expect("merge re-add");
    let welcome_rumor = &readd.welcome_rumors.as_ref().expect("welcome rumors")[0];
    let w2 = bob
        .process_welcome(&EventId::from_slice(&[7u8; 32]).unwrap(), welcome_rumor)
        .expect("process second welcome");

    assert_eq!(
        full_list(&bob, &gid, MessageSortOrder::CreatedAtFirst).len(),
        before,
        "history is still listed"
    );
    // From here on collect every violation instead of stopping at the first, to show that
    // the pointer stays wrong after the invitation is accepted and traffic resumes.
    let mut violations: Vec<String> = Vec::new();
    let mut soft = |step: &str| {
        let r = std::panic::catch_unwind(std::panic::AssertUnwindSafe(|| {
            check_c18(&bob, &gid, step)
        }));
        if let Err(e) = r {
            let msg = e
                .downcast_ref::<String>()
                .cloned()
                .unwrap_or_else(|| "?".to_string());
            violations.push(msg.lines().next().unwrap_or("?").to_string());
        }
    };
    soft("bob received the second invitation");

    bob.accept_welcome(&w2).expect("accept second welcome");
    soft("bob accepted the second invitation");

    // an older message arrives now: it must not become the pointer while newer ones exist
    let ev = alice
        .create_message(&gid, rumor(&alice_keys, "late-old", 50))
        .expect("create_message");
    bob.process_message(&ev).expect("process_message");
    soft("bob got an old-dated message after rejoining");

    assert!(
        violations.is_empty(),
        "C18 violated at {} step(s):\n{}",
        violations.len(),
        violations.join("\n")
    );
}

#[test]
fn h1_reinvite_after_removal_memory() {
    reinvite_after_removal(
        MDK::new(MdkMemoryStorage::default()),
        MDK::new(MdkMemoryStorage::default()),
    );
}

#[test]
fn h1_reinvite_after_removal_sqlite() {
    reinvite_after_removal(
        MDK::new(sqlite()),
        MDK::new(sqlite()),
    );
}

// ---------------------------------------------------------------------------------------------
// H2: offsets at the top of the range: a page that starts beyond the end is empty.
// ---------------------------------------------------------------------------------------------
fn huge_offset<S: MdkStorageProvider>(mdk: MDK<S>) {
    let keys = Keys::generate();
    let other = MDK::new(MdkMemoryStorage::default());
    let other_keys = Keys::generate();
    let created = mdk
        .create_group(
            &keys.public_key(),
            vec![key_package_event(&other, &other_keys)],
            config(vec![keys.public_key()]),
        )
        .expect("create_group");
    let gid = created.group.mls_group_id.clone();
    mdk.merge_pending_commit(&gid).expect("merge");
    for i in 0..3 {
        mdk.create_message(&gid, rumor(&keys, &format!("m{i}"), 100))
            .expect("create_message");
    }
    check_c18(&mdk, &gid, "three messages");
    for offset in [3usize, 4, i64::MAX as usize, usize::MAX - MAX_MESSAGE_LIMIT, usize::MAX] {
        for limit in [1usize, MAX_MESSAGE_LIMIT] {
            let page = std::panic::catch_unwind(std::panic::AssertUnwindSafe(|| {
                mdk.get_messages(&gid, Some(Pagination::new(Some(limit), Some(offset))))
            }))
            .unwrap_or_else(|_| panic!("get_messages(limit {limit}, offset {offset}) panicked"));
            match page {
                Ok(p) => assert!(
                    p.is_empty(),
                    "page at offset {offset} (limit {limit}) beyond the end holds {} messages",
                    p.len()
                ),
                Err(_) => {} // refusing is acceptable
            }
        }
    }
}

#[test]
fn h2_huge_offset_memory() {
    huge_offset(MDK::new(MdkMemoryStorage::default()));
}

#[test]
fn h2_huge_offset_sqlite() {
    huge_offset(MDK::new(sqlite()));
}

// ---------------------------------------------------------------------------------------------
// H3: memory backend with the smallest message cap: a late, older message evicts the newest.
// ---------------------------------------------------------------------------------------------
#[test]
fn h3_memory_cap_one_late_older_message() {
    let limits = ValidationLimits::default().with_max_messages_per_group(1);
    let mdk = MDK::new(MdkMemoryStorage::with_limits(limits));
    let keys = Keys::generate();
    let other = MDK::new(MdkMemoryStorage::default());
    let other_keys = Keys::generate();
    let created = mdk
        .create_group(
            &keys.public_key(),
            vec![key_package_event(&other, &other_keys)],
            config(vec![keys.public_key()]),
        )
        .expect("create_group");
    let gid = created.group.mls_group_id.clone();
    mdk.merge_pending_commit(&gid).expect("merge");
    mdk.create_message(&gid, rumor(&keys, "new", 200)).unwrap();
    check_c18(&mdk, &gid, "one message");
    mdk.create_message(&gid, rumor(&keys, "old", 100)).unwrap();
    check_c18(&mdk, &gid, "older message stored under cap 1");
}

// ---------------------------------------------------------------------------------------------
// H4: commit race resolved by rollback, with traffic on the losing branch (own and others'),
// and more traffic after the rollback.
// ---------------------------------------------------------------------------------------------
fn race_with_traffic<S: MdkStorageProvider>(alice: MDK<S>, bob: MDK<S>, carol: MDK<S>) {
    let alice_keys = Keys::generate();
    let bob_keys = Keys::generate();
    let carol_keys = Keys::generate();
    let admins = vec![
        alice_keys.public_key(),
        bob_keys.public_key(),
        carol_keys.public_key(),
    ];
    let created = alice
        .create_group(
            &alice_keys.public_key(),
            vec![
                key_package_event(&bob, &bob_keys),
                key_package_event(&carol, &carol_keys),
            ],
            config(admins),
        )
        .expect("create_group");
    let gid = created.group.mls_group_id.clone();
    alice.merge_pending_commit(&gid).expect("merge");
    let w = bob
        .process_welcome(&EventId::all_zeros(), &created.welcome_rumors[0])
        .unwrap();
    bob.accept_welcome(&w).unwrap();
    let w = carol
        .process_welcome(&EventId::all_zeros(), &created.welcome_rumors[1])
        .unwrap();
    carol.accept_welcome(&w).unwrap();

    // traffic before the race
    for (i, ts) in [100u64, 100, 100].into_iter().enumerate() {
        let ev = bob
            .create_message(&gid, rumor(&bob_keys, &format!("pre{i}"), ts))
            .unwrap();
        alice.process_message(&ev).unwrap();
        carol.process_message(&ev).unwrap();
        check_c18(&alice, &gid, &format!("pre{i}"));
    }

    // competing commits
    let bob_commit = bob.self_update(&gid).expect("bob self_update");
    let carol_commit = carol.self_update(&gid).expect("carol self_update");
    let b = &bob_commit.evolution_event;
    let c = &carol_commit.evolution_event;
    let bob_better = (b.created_at, b.id) < (c.created_at, c.id);
    let (better, worse, worse_mdk, worse_keys, better_mdk, better_keys) = if bob_better {
        (b, c, &carol, &carol_keys, &bob, &bob_keys)
    } else {
        (c, b, &bob, &bob_keys, &carol, &carol_keys)
    };

    alice.process_message(worse).expect("worse commit applies");
    check_c18(&alice, &gid, "worse commit applied");
    worse_mdk.merge_pending_commit(&gid).expect("merge worse");

    // traffic on the losing branch: newest created_at so far
    let ev = worse_mdk
        .create_message(&gid, rumor(worse_keys, "lost-1", 300))
        .unwrap();
    alice.process_message(&ev).unwrap();
    check_c18(&alice, &gid, "lost-1");
    alice
        .create_message(&gid, rumor(&alice_keys, "own-lost", 300))
        .unwrap();
    check_c18(&alice, &gid, "own-lost");

    // the better commit arrives late
    alice.process_message(better).expect("better commit applies");
    check_c18(&alice, &gid, "rolled back to the better commit");
    assert_eq!(
        full_list(&alice, &gid, MessageSortOrder::CreatedAtFirst)
            .iter()
            .filter(|m| m.state == MessageState::EpochInvalidated)
            .count(),
        2,
        "the two messages of the losing branch are invalidated"
    );
    better_mdk.merge_pending_commit(&gid).expect("merge better");

    // traffic after the rollback: older than the invalidated ones, colliding with history
    for (i, ts) in [100u64, 300, 90].into_iter().enumerate() {
        let ev = better_mdk
            .create_message(&gid, rumor(better_keys, &format!("post{i}"), ts))
            .unwrap();
        alice.process_message(&ev).unwrap();
        check_c18(&alice, &gid, &format!("post{i}"));
        // re-delivery
        alice.process_message(&ev).unwrap();
        check_c18(&alice, &gid, &format!("post{i} again"));
    }
    alice
        .create_message(&gid, rumor(&alice_keys, "own-post", 100))
        .unwrap();
    check_c18(&alice, &gid, "own-post");
}

#[test]
fn h4_race_with_traffic_memory() {
    race_with_traffic(
        MDK::new(MdkMemoryStorage::default()),
        MDK::new(MdkMemoryStorage::default()),
        MDK::new(MdkMemoryStorage::default()),
    );
}

#[test]
fn h4_race_with_traffic_sqlite() {
    race_with_traffic(MDK::new(sqlite()), MDK::new(sqlite()), MDK::new(sqlite()));
}
