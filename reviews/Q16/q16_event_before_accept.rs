//! Q16 / C16: a group event delivered while the invitation is merely received (pending), or
//! before it has been received at all, then delivered again after the invitation is accepted.

use mdk_core::MDK;
use mdk_core::groups::NostrGroupConfigData;
use mdk_core::messages::MessageProcessingResult;
use mdk_memory_storage::MdkMemoryStorage;
use nostr::{Event, EventBuilder, EventId, Keys, Kind, RelayUrl};

fn kp_event(mdk: &MDK<MdkMemoryStorage>, keys: &Keys) -> Event {
    let relays = vec![RelayUrl::parse("wss://test.relay").unwrap()];
    let (content, tags, _) = mdk
        .create_key_package_for_event(&keys.public_key(), relays)
        .unwrap();
    EventBuilder::new(Kind::MlsKeyPackage, content)
        .tags(tags)
        .sign_with_keys(keys)
        .unwrap()
}

fn config(admins: Vec<nostr::PublicKey>) -> NostrGroupConfigData {
    NostrGroupConfigData::new(
        "G".to_string(),
        "d".to_string(),
        None,
        None,
        None,
        vec![RelayUrl::parse("wss://test.relay").unwrap()],
        admins,
    )
}

fn run(deliver_before_process: bool) {
    let alice = Keys::generate();
    let bob = Keys::generate();
    let alice_mdk = MDK::new(MdkMemoryStorage::default());
    let bob_mdk = MDK::new(MdkMemoryStorage::default());

    let bob_kp = kp_event(&bob_mdk, &bob);
    let created = alice_mdk
        .create_group(
            &alice.public_key(),
            vec![bob_kp],
            config(vec![alice.public_key()]),
        )
        .unwrap();
    let gid = created.group.mls_group_id.clone();
    alice_mdk.merge_pending_commit(&gid).unwrap();
    let rumor = created.welcome_rumors[0].clone();

    // Alice goes on: a chat message in the epoch Bob is invited to, then a commit.
    let m1 = alice_mdk
        .create_message(
            &gid,
            EventBuilder::new(Kind::TextNote, "first").build(alice.public_key()),
        )
        .unwrap();
    let upd = alice_mdk.self_update(&gid).unwrap();
    alice_mdk.merge_pending_commit(&gid).unwrap();
    let c2 = upd.evolution_event;

    let wrapper = EventId::from_slice(&[1u8; 32]).unwrap();
    if deliver_before_process {
        println!("m1 before invitation received -> {:?}", bob_mdk.process_message(&m1));
        println!("c2 before invitation received -> {:?}", bob_mdk.process_message(&c2));
    }
    let w = bob_mdk.process_welcome(&wrapper, &rumor).unwrap();
    if !deliver_before_process {
        println!("m1 while pending -> {:?}", bob_mdk.process_message(&m1));
        println!("c2 while pending -> {:?}", bob_mdk.process_message(&c2));
    }
    bob_mdk.accept_welcome(&w).unwrap();

    let r1 = bob_mdk.process_message(&m1);
    println!("m1 after accept -> {:?}", r1);
    let r2 = bob_mdk.process_message(&c2);
    println!("c2 after accept -> {:?}", r2);
    let a = alice_mdk.get_group(&gid).unwrap().unwrap().epoch;
    let b = bob_mdk.get_group(&gid).unwrap().unwrap().epoch;
    println!("alice epoch {a}, bob epoch {b}");
    assert!(matches!(r1, Ok(MessageProcessingResult::ApplicationMessage(_))));
    assert!(matches!(r2, Ok(MessageProcessingResult::Commit { .. })));
    assert_eq!(a, b);
}

#[test]
fn group_events_delivered_while_invitation_pending() {
    run(false);
}

#[test]
fn group_events_delivered_before_invitation_received() {
    run(true);
}
