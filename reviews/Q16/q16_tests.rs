//! Q16 / C16 probes that need crate-private access (hostile welcomes built with openmls).
#![allow(clippy::too_many_arguments)]

use std::collections::BTreeSet;

use mdk_memory_storage::MdkMemoryStorage;
use mdk_storage_traits::groups::GroupStorage;
use mdk_storage_traits::groups::types as gt;
use mdk_storage_traits::welcomes::types as wt;
use nostr::{Event, EventId, Keys, PublicKey, RelayUrl, UnsignedEvent};
use openmls::prelude::*;
use tls_codec::Serialize as _;

use crate::MDK;
use crate::extension::NostrGroupDataExtension;
use crate::messages::MessageProcessingResult;
use crate::test_util::*;
use crate::tests::create_test_mdk;

type M = MDK<MdkMemoryStorage>;

fn wid(b: u8) -> EventId {
    EventId::from_slice(&[b; 32]).unwrap()
}

fn relay(s: &str) -> RelayUrl {
    RelayUrl::parse(s).unwrap()
}

fn group_data(
    name: &str,
    nostr_group_id: [u8; 32],
    admins: Vec<PublicKey>,
    relays: Vec<RelayUrl>,
) -> NostrGroupDataExtension {
    let mut d = NostrGroupDataExtension::new(name, "desc", admins, relays, None, None, None, None);
    d.set_nostr_group_id(nostr_group_id);
    d
}

/// A welcome built outside the library's own group functions: any MLS group id, any group data.
/// Returns the kind-444 rumor and the inviter's openmls group.
fn hostile_welcome(
    att: &M,
    att_keys: &Keys,
    victim_kp_event: &Event,
    mls_group_id: &[u8],
    data: &NostrGroupDataExtension,
    extra_epochs: usize,
) -> UnsignedEvent {
    let (credential, signer) = att
        .generate_credential_with_key(&att_keys.public_key())
        .unwrap();
    let ext = Extension::Unknown(
        data.extension_type(),
        UnknownExtension(data.as_raw().tls_serialize_detached().unwrap()),
    );
    let extensions =
        Extensions::from_vec(vec![ext, att.required_capabilities_extension()]).unwrap();
    let cfg = MlsGroupCreateConfig::builder()
        .ciphersuite(att.ciphersuite)
        .use_ratchet_tree_extension(true)
        .capabilities(att.capabilities())
        .with_group_context_extensions(extensions)
        .build();
    let mut g = MlsGroup::new_with_group_id(
        &att.provider,
        &signer,
        &cfg,
        openmls::group::GroupId::from_slice(mls_group_id),
        credential,
    )
    .unwrap();
    for _ in 0..extra_epochs {
        g.self_update(&att.provider, &signer, LeafNodeParameters::default())
            .unwrap();
        g.merge_pending_commit(&att.provider).unwrap();
    }
    let kp = att.parse_key_package(victim_kp_event).unwrap();
    let (_c, welcome, _gi) = g.add_members(&att.provider, &signer, &[kp]).unwrap();
    g.merge_pending_commit(&att.provider).unwrap();
    let ser = welcome.tls_serialize_detached().unwrap();
    let relays: Vec<RelayUrl> = if data.relays.is_empty() {
        vec![relay("wss://x.example")]
    } else {
        data.relays.iter().cloned().collect()
    };
    att.build_welcome_rumors_for_key_packages(&g, ser, vec![victim_kp_event.clone()], &relays)
        .unwrap()
        .unwrap()
        .remove(0)
}

struct Honest {
    alice: Keys,
    alice_mdk: M,
    bob: Keys,
    bob_mdk: M,
    bob_kp: Event,
    gid: crate::GroupId,
    rumor: UnsignedEvent,
}

fn honest_invite() -> Honest {
    let alice = Keys::generate();
    let bob = Keys::generate();
    let alice_mdk = create_test_mdk();
    let bob_mdk = create_test_mdk();
    let bob_kp = create_key_package_event(&bob_mdk, &bob);
    let created = alice_mdk
        .create_group(
            &alice.public_key(),
            vec![bob_kp.clone()],
            create_nostr_group_config_data(vec![alice.public_key()]),
        )
        .unwrap();
    let gid = created.group.mls_group_id.clone();
    alice_mdk.merge_pending_commit(&gid).unwrap();
    Honest {
        alice,
        alice_mdk,
        bob,
        bob_mdk,
        bob_kp,
        gid,
        rumor: created.welcome_rumors[0].clone(),
    }
}

fn chat(from: &M, keys: &Keys, gid: &crate::GroupId, to: &M, text: &str) -> bool {
    let ev = from
        .create_message(gid, create_test_rumor(keys, text))
        .unwrap();
    let r = to.process_message(&ev);
    println!("   chat '{text}' -> {:?}", r);
    matches!(r, Ok(MessageProcessingResult::ApplicationMessage(_)))
}

/// H3: honest invitation pending; a hostile invitation for the same MLS group id displaces the
/// pending record's Nostr group id; a second hostile invitation then reserves the honest id.
#[test]
fn q16_h3_pending_record_displaced_then_id_captured() {
    let h = honest_invite();
    let mallory = Keys::generate();
    let mallory_mdk = create_test_mdk();

    let w1 = h.bob_mdk.process_welcome(&wid(1), &h.rumor).unwrap();
    let n1 = w1.nostr_group_id;

    let d2 = group_data("evil2", [0xE2; 32], vec![mallory.public_key()], vec![relay("wss://evil.example")]);
    let r2 = hostile_welcome(&mallory_mdk, &mallory, &h.bob_kp, h.gid.as_slice(), &d2, 0);
    let w2 = h.bob_mdk.process_welcome(&wid(2), &r2);
    println!("hostile W2 (same MLS id, other nostr id) -> {:?}", w2.as_ref().map(|w| w.state));
    let rec = h.bob_mdk.get_group(&h.gid).unwrap().unwrap();
    println!("pending record now: name {:?} nostr id {:02x?} state {:?}", rec.name, &rec.nostr_group_id[..2], rec.state);

    let d3 = group_data("evil3", n1, vec![mallory.public_key()], vec![relay("wss://evil.example")]);
    let r3 = hostile_welcome(&mallory_mdk, &mallory, &h.bob_kp, b"another-mls-group-id", &d3, 0);
    let w3 = h.bob_mdk.process_welcome(&wid(3), &r3);
    println!("hostile W3 (new MLS id, honest nostr id) -> {:?}", w3.as_ref().map(|w| w.state));

    // Bob declines both hostile invitations and accepts the honest one.
    if let Ok(w) = &w2 { println!("decline W2 -> {:?}", h.bob_mdk.decline_welcome(w)); }
    if let Ok(w) = &w3 { println!("decline W3 -> {:?}", h.bob_mdk.decline_welcome(w)); }
    let acc = h.bob_mdk.accept_welcome(&w1);
    println!("accept honest W1 -> {:?}", acc);
    let rec = h.bob_mdk.get_group(&h.gid).unwrap().unwrap();
    println!("record after accept: name {:?} nostr id {:02x?} (honest {:02x?}) state {:?} admins {}", rec.name, &rec.nostr_group_id[..2], &n1[..2], rec.state, rec.admin_pubkeys.len());
    let ok_in = chat(&h.alice_mdk, &h.alice, &h.gid, &h.bob_mdk, "to bob");
    let stored = h.bob_mdk.get_welcome(&w1.id).unwrap().unwrap();
    println!("honest welcome stored as {:?}; accept again -> {:?}", stored.state, h.bob_mdk.accept_welcome(&stored));
    let rec2 = h.bob_mdk.get_group(&h.gid).unwrap().unwrap();
    println!("record after second accept: name {:?} nostr id {:02x?} state {:?}", rec2.name, &rec2.nostr_group_id[..2], rec2.state);
    let out = h.bob_mdk.create_message(&h.gid, create_test_rumor(&h.bob, "from bob")).unwrap();
    println!("bob's outgoing event is tagged h={:?} (group's id is {})", out.tags.iter().next().and_then(|t| t.content().map(|s| s[..4].to_string())), hex::encode(&n1[..2]));
    println!("alice reads bob's message -> {:?}", h.alice_mdk.process_message(&out).map(|_| ()));
    assert!(
        !(acc.is_err() && rec.state == gt::GroupState::Active),
        "accept_welcome failed, yet the group is Active (under the hostile invitation's name and Nostr group id)"
    );
    assert!(acc.is_ok(), "accepting the honest invitation failed");
    assert_eq!(rec.nostr_group_id, n1);
    assert!(ok_in);
}

/// H4: hostile invitation whose MLS group id is an ACTIVE group of the victim: processed, then
/// declined. The active group must be exactly as before.
#[test]
fn q16_h4_hostile_invitation_for_active_group_processed_and_declined() {
    let h = honest_invite();
    let mallory = Keys::generate();
    let w1 = h.bob_mdk.process_welcome(&wid(1), &h.rumor).unwrap();
    h.bob_mdk.accept_welcome(&w1).unwrap();
    let before = h.bob_mdk.get_group(&h.gid).unwrap().unwrap();
    let relays_before = h.bob_mdk.get_relays(&h.gid).unwrap();

    for (i, nid) in [before.nostr_group_id, [0xEE; 32]].into_iter().enumerate() {
        let mallory_mdk = create_test_mdk();
        let d = group_data("evil", nid, vec![], vec![relay("wss://evil.example")]);
        let r = hostile_welcome(&mallory_mdk, &mallory, &h.bob_kp, h.gid.as_slice(), &d, 3);
        let w = h.bob_mdk.process_welcome(&wid(10 + i as u8), &r).unwrap();
        assert_eq!(h.bob_mdk.get_group(&h.gid).unwrap().unwrap(), before);
        h.bob_mdk.decline_welcome(&w).unwrap();
        assert_eq!(h.bob_mdk.get_group(&h.gid).unwrap().unwrap(), before);
        assert_eq!(h.bob_mdk.get_relays(&h.gid).unwrap(), relays_before);
        // the hostile nostr id must not be reserved / routed to the active group
        println!("holder of hostile id: {:?}", h.bob_mdk.storage().find_group_by_nostr_group_id(&[0xEE; 32]).unwrap().map(|g| g.state));
    }
    assert!(chat(&h.alice_mdk, &h.alice, &h.gid, &h.bob_mdk, "a->b"));
    assert!(chat(&h.bob_mdk, &h.bob, &h.gid, &h.alice_mdk, "b->a"));
    let upd = h.bob_mdk.self_update(&h.gid).unwrap();
    h.bob_mdk.merge_pending_commit(&h.gid).unwrap();
    h.alice_mdk.process_message(&upd.evolution_event).unwrap();
    assert!(chat(&h.alice_mdk, &h.alice, &h.gid, &h.bob_mdk, "a->b 2"));
}

/// H5: weird group data: zero admins, inviter not an admin, victim sole admin.
#[test]
fn q16_h5_admin_variants() {
    let bob = Keys::generate();
    let bob_mdk = create_test_mdk();
    let bob_kp = create_key_package_event(&bob_mdk, &bob);
    let mallory = Keys::generate();
    let mallory_mdk = create_test_mdk();
    let stranger = Keys::generate();
    for (i, admins) in [vec![], vec![stranger.public_key()], vec![bob.public_key()]].into_iter().enumerate() {
        let d = group_data("evil", [0x40 + i as u8; 32], admins, vec![relay("wss://evil.example")]);
        let r = hostile_welcome(&mallory_mdk, &mallory, &bob_kp, format!("gid-{i}").as_bytes(), &d, 0);
        let w = bob_mdk.process_welcome(&wid(20 + i as u8), &r);
        println!("variant {i}: process -> {:?}", w.as_ref().map(|w| (w.state, w.group_admin_pubkeys.len(), w.member_count)));
        if let Ok(w) = w {
            let a = bob_mdk.accept_welcome(&w);
            let g = bob_mdk.get_group(&w.mls_group_id).unwrap().unwrap();
            println!("variant {i}: accept -> {:?}; group state {:?} admins {}", a, g.state, g.admin_pubkeys.len());
        }
    }
}

/// H6: the same (last resort) key package serves a second invitation from another group.
#[test]
fn q16_h6_second_group_same_key_package() {
    let h = honest_invite();
    let w1 = h.bob_mdk.process_welcome(&wid(1), &h.rumor).unwrap();
    h.bob_mdk.accept_welcome(&w1).unwrap();
    let carol = Keys::generate();
    let carol_mdk = create_test_mdk();
    let created = carol_mdk
        .create_group(&carol.public_key(), vec![h.bob_kp.clone()], create_nostr_group_config_data(vec![carol.public_key()]))
        .unwrap();
    let gid2 = created.group.mls_group_id.clone();
    carol_mdk.merge_pending_commit(&gid2).unwrap();
    let w2 = h.bob_mdk.process_welcome(&wid(2), &created.welcome_rumors[0]).unwrap();
    h.bob_mdk.accept_welcome(&w2).unwrap();
    assert!(chat(&carol_mdk, &carol, &gid2, &h.bob_mdk, "c->b"));
    assert!(chat(&h.bob_mdk, &h.bob, &gid2, &carol_mdk, "b->c"));
    assert!(chat(&h.alice_mdk, &h.alice, &h.gid, &h.bob_mdk, "a->b"));
    // both self-updates
    for (gid, peer) in [(&h.gid, &h.alice_mdk), (&gid2, &carol_mdk)] {
        let upd = h.bob_mdk.self_update(gid).unwrap();
        h.bob_mdk.merge_pending_commit(gid).unwrap();
        peer.process_message(&upd.evolution_event).unwrap();
    }
    assert!(chat(&carol_mdk, &carol, &gid2, &h.bob_mdk, "c->b 2"));
    assert!(chat(&h.alice_mdk, &h.alice, &h.gid, &h.bob_mdk, "a->b 2"));
}

/// H7: two pending invitations for one MLS group id (two admins at different epochs): accept one,
/// decline the other, in both orders.
#[test]
fn q16_h7_two_pending_accept_one_decline_other() {
    for accept_first in [true, false] {
        let alice = Keys::generate();
        let carol = Keys::generate();
        let bob = Keys::generate();
        let alice_mdk = create_test_mdk();
        let carol_mdk = create_test_mdk();
        let bob_mdk = create_test_mdk();
        let carol_kp = create_key_package_event(&carol_mdk, &carol);
        let bob_kp = create_key_package_event(&bob_mdk, &bob);
        let created = alice_mdk
            .create_group(&alice.public_key(), vec![carol_kp], create_nostr_group_config_data(vec![alice.public_key(), carol.public_key()]))
            .unwrap();
        let gid = created.group.mls_group_id.clone();
        alice_mdk.merge_pending_commit(&gid).unwrap();
        let cw = carol_mdk.process_welcome(&wid(9), &created.welcome_rumors[0]).unwrap();
        carol_mdk.accept_welcome(&cw).unwrap();
        // Both admins add Bob from the same epoch; Alice's commit wins, Carol's is dropped
        let a = alice_mdk.add_members(&gid, &[bob_kp.clone()]).unwrap();
        let c = carol_mdk.add_members(&gid, &[bob_kp.clone()]).unwrap();
        alice_mdk.merge_pending_commit(&gid).unwrap();
        carol_mdk.clear_pending_commit(&gid).unwrap();
        carol_mdk.process_message(&a.evolution_event).unwrap();
        let wa = bob_mdk.process_welcome(&wid(1), &a.welcome_rumors.as_ref().unwrap()[0]).unwrap();
        let wc = bob_mdk.process_welcome(&wid(2), &c.welcome_rumors.as_ref().unwrap()[0]).unwrap();
        assert_eq!(bob_mdk.get_pending_welcomes(None).unwrap().len(), 2);
        if accept_first {
            bob_mdk.accept_welcome(&wa).unwrap();
            bob_mdk.decline_welcome(&wc).unwrap();
        } else {
            bob_mdk.decline_welcome(&wc).unwrap();
            assert_eq!(bob_mdk.get_group(&gid).unwrap().unwrap().state, gt::GroupState::Inactive);
            bob_mdk.accept_welcome(&wa).unwrap();
        }
        let g = bob_mdk.get_group(&gid).unwrap().unwrap();
        assert_eq!(g.state, gt::GroupState::Active);
        assert_eq!(bob_mdk.get_pending_welcomes(None).unwrap().len(), 0);
        assert!(chat(&alice_mdk, &alice, &gid, &bob_mdk, "a->b"));
        assert!(chat(&bob_mdk, &bob, &gid, &carol_mdk, "b->c"));
        let ag = alice_mdk.get_group(&gid).unwrap().unwrap();
        assert_eq!((g.epoch, &g.name, &g.admin_pubkeys, g.nostr_group_id), (ag.epoch, &ag.name, &ag.admin_pubkeys, ag.nostr_group_id));
        assert_eq!(g.self_update_state, gt::SelfUpdateState::Required);
        assert_eq!(bob_mdk.get_relays(&gid).unwrap(), alice_mdk.get_relays(&gid).unwrap());
        assert_eq!(bob_mdk.get_members(&gid).unwrap(), alice_mdk.get_members(&gid).unwrap());
    }
}

/// H8: key package deleted before accept: what is left, can it be declined?
#[test]
fn q16_h8_key_package_deleted_before_accept() {
    let h = honest_invite();
    let w1 = h.bob_mdk.process_welcome(&wid(1), &h.rumor).unwrap();
    let kp = h.bob_mdk.parse_key_package(&h.bob_kp).unwrap();
    h.bob_mdk.delete_key_package_from_storage(&kp).unwrap();
    println!("accept -> {:?}", h.bob_mdk.accept_welcome(&w1));
    println!("decline -> {:?}", h.bob_mdk.decline_welcome(&w1));
    let g = h.bob_mdk.get_group(&h.gid).unwrap().unwrap();
    let w = h.bob_mdk.get_welcome(&w1.id).unwrap().unwrap();
    println!("group {:?} welcome {:?} pending list {}", g.state, w.state, h.bob_mdk.get_pending_welcomes(None).unwrap().len());
    println!("process again same wrapper -> {:?}", h.bob_mdk.process_welcome(&wid(1), &h.rumor).map(|w| w.state));
    assert_ne!(g.state, gt::GroupState::Active);
}

/// H9: failed invitation (no matching key package yet), then the same rumor under the same and
/// under another wrapper once the client can open it.
#[test]
fn q16_h9_failed_then_retry() {
    let alice = Keys::generate();
    let bob = Keys::generate();
    let alice_mdk = create_test_mdk();
    let bob_mdk = create_test_mdk();
    let bob_other_device = create_test_mdk();
    // key package made on Bob's other device: this client cannot open the welcome
    let kp = create_key_package_event(&bob_other_device, &bob);
    let created = alice_mdk
        .create_group(&alice.public_key(), vec![kp], create_nostr_group_config_data(vec![alice.public_key()]))
        .unwrap();
    let r = &created.welcome_rumors[0];
    println!("first -> {:?}", bob_mdk.process_welcome(&wid(1), r).map(|w| w.state));
    println!("groups {}, pending {}", bob_mdk.get_groups().unwrap().len(), bob_mdk.get_pending_welcomes(None).unwrap().len());
    println!("same wrapper -> {:?}", bob_mdk.process_welcome(&wid(1), r).map(|w| w.state));
    println!("other wrapper -> {:?}", bob_mdk.process_welcome(&wid(2), r).map(|w| w.state));
    assert_eq!(bob_mdk.get_groups().unwrap().len(), 0);
    assert!(bob_mdk.get_welcome(&r.id.unwrap()).unwrap().is_none());
}

/// H1b: removed member declines, then accepts, the long-accepted invitation: membership revived.
#[test]
fn q16_h1b_removed_member_decline_then_accept_old_welcome() {
    let h = honest_invite();
    let w1 = h.bob_mdk.process_welcome(&wid(1), &h.rumor).unwrap();
    h.bob_mdk.accept_welcome(&w1).unwrap();
    let rm = h.alice_mdk.remove_members(&h.gid, &[h.bob.public_key()]).unwrap();
    h.alice_mdk.merge_pending_commit(&h.gid).unwrap();
    println!("bob processes his removal -> {:?}", h.bob_mdk.process_message(&rm.evolution_event).map(|_| ()));
    assert_eq!(h.bob_mdk.get_group(&h.gid).unwrap().unwrap().state, gt::GroupState::Inactive);
    let stored = h.bob_mdk.get_welcome(&w1.id).unwrap().unwrap();
    println!("accept old (accepted) welcome -> {:?}", h.bob_mdk.accept_welcome(&stored));
    assert_eq!(h.bob_mdk.get_group(&h.gid).unwrap().unwrap().state, gt::GroupState::Inactive);
    println!("decline old welcome -> {:?}", h.bob_mdk.decline_welcome(&stored));
    let stored = h.bob_mdk.get_welcome(&w1.id).unwrap().unwrap();
    println!("accept after decline -> {:?}", h.bob_mdk.accept_welcome(&stored));
    let g = h.bob_mdk.get_group(&h.gid).unwrap().unwrap();
    println!("group state {:?} epoch {} (alice at {})", g.state, g.epoch, h.alice_mdk.get_group(&h.gid).unwrap().unwrap().epoch);
    assert_ne!(g.state, gt::GroupState::Active, "a membership that has ended was revived from the old invitation");
}

#[allow(dead_code)]
fn unused(_: BTreeSet<u8>, _: wt::WelcomeState) {}
