//! Q16 / C16: decline_welcome on an invitation that has already been accepted, and what a later
//! accept_welcome does to the (advanced) active group.

use mdk_core::MDK;
use mdk_core::groups::NostrGroupConfigData;
use mdk_core::messages::MessageProcessingResult;
use mdk_memory_storage::MdkMemoryStorage;
use mdk_storage_traits::groups::types::GroupState;
use mdk_storage_traits::welcomes::types::WelcomeState;
use nostr::{Event, EventBuilder, EventId, Keys, Kind, RelayUrl};

fn kp_event(mdk: &MDK<MdkMemoryStorage>, keys: &Keys) -> Event {
    let relays = vec![RelayUrl::parse("wss://test.relay").unwrap()];
    let (content, tags, _) = mdk
        .create_key_package_for_event(&keys.public_key(), relays)
        .unwrap();
    EventBuilder::new(Kind::MlsKeyPackage, content)
        .tags(tags)
        .sign_with_keys(keys)
        .unwrap()
}

fn mls_epoch(mdk: &MDK<MdkMemoryStorage>, gid: &mdk_core::GroupId) -> u64 {
    use openmls::prelude::OpenMlsProvider;
    openmls::group::MlsGroup::load(
        mdk.provider.storage(),
        &openmls::group::GroupId::from_slice(gid.as_slice()),
    )
    .unwrap()
    .unwrap()
    .epoch()
    .as_u64()
}

fn config(admins: Vec<nostr::PublicKey>) -> NostrGroupConfigData {
    NostrGroupConfigData::new(
        "G".to_string(),
        "d".to_string(),
        None,
        None,
        None,
        vec![RelayUrl::parse("wss://test.relay").unwrap()],
        admins,
    )
}

#[test]
fn decline_after_accept_then_accept_rolls_back_active_group() {
    let alice = Keys::generate();
    let bob = Keys::generate();
    let alice_mdk = MDK::new(MdkMemoryStorage::default());
    let bob_mdk = MDK::new(MdkMemoryStorage::default());

    let bob_kp = kp_event(&bob_mdk, &bob);
    let created = alice_mdk
        .create_group(
            &alice.public_key(),
            vec![bob_kp],
            config(vec![alice.public_key()]),
        )
        .unwrap();
    let gid = created.group.mls_group_id.clone();
    alice_mdk.merge_pending_commit(&gid).unwrap();

    let rumor = created.welcome_rumors[0].clone();
    let w = bob_mdk
        .process_welcome(&EventId::from_slice(&[1u8; 32]).unwrap(), &rumor)
        .unwrap();
    bob_mdk.accept_welcome(&w).unwrap();
    let joined_epoch = bob_mdk.get_group(&gid).unwrap().unwrap().epoch;

    // The group advances twice: Bob's own post-join self-update, then Alice's.
    let upd = bob_mdk.self_update(&gid).unwrap();
    bob_mdk.merge_pending_commit(&gid).unwrap();
    alice_mdk.process_message(&upd.evolution_event).unwrap();
    let upd2 = alice_mdk.self_update(&gid).unwrap();
    alice_mdk.merge_pending_commit(&gid).unwrap();
    bob_mdk.process_message(&upd2.evolution_event).unwrap();

    let before = bob_mdk.get_group(&gid).unwrap().unwrap();
    assert_eq!(before.state, GroupState::Active);
    assert_eq!(before.epoch, joined_epoch + 2);
    let mls_epoch_before = mls_epoch(&bob_mdk, &gid);

    // The invitation is declined although it was accepted long ago (stale list entry, second
    // device view, mis-tap).
    let stored = bob_mdk.get_welcome(&w.id).unwrap().unwrap();
    assert_eq!(stored.state, WelcomeState::Accepted);
    let r = bob_mdk.decline_welcome(&stored);
    println!("decline after accept -> {:?}", r);
    let after_decline_w = bob_mdk.get_welcome(&w.id).unwrap().unwrap();
    let after_decline_g = bob_mdk.get_group(&gid).unwrap().unwrap();
    println!(
        "after decline: welcome state {:?}, group state {:?}, epoch {}",
        after_decline_w.state, after_decline_g.state, after_decline_g.epoch
    );

    // ... and accepted again (the guard "accepted once" looks at the stored state only).
    let r2 = bob_mdk.accept_welcome(&after_decline_w);
    println!("accept after decline-after-accept -> {:?}", r2);

    let after = bob_mdk.get_group(&gid).unwrap().unwrap();
    let mls_epoch_after = mls_epoch(&bob_mdk, &gid);
    println!(
        "group record epoch before {} after {}; MLS epoch before {} after {}",
        before.epoch, after.epoch, mls_epoch_before, mls_epoch_after
    );

    // Alice sends a message in the current epoch; Bob (an active member throughout) must read it.
    let msg = alice_mdk
        .create_message(
            &gid,
            EventBuilder::new(Kind::TextNote, "hello").build(alice.public_key()),
        )
        .unwrap();
    let res = bob_mdk.process_message(&msg);
    println!("bob processes alice's message -> {:?}", res);

    assert_eq!(
        after_decline_w.state,
        WelcomeState::Accepted,
        "declining an invitation that was accepted must not un-accept it while the group stays active"
    );
    assert_eq!(
        mls_epoch_after, mls_epoch_before,
        "the active group's MLS state was set back to the epoch of the invitation"
    );
    assert!(
        matches!(res, Ok(MessageProcessingResult::ApplicationMessage(_))),
        "the active group no longer reads its members' messages"
    );
}
