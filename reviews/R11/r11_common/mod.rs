//! R11 (property C11: "restarting on persistent storage is invisible") shared harness.
//!
//! A `Node` is an MDK instance on a SQLite file that can be dropped and re-created from the
//! file between any two API calls. A node can be *forked*: the file is copied, giving a twin
//! with byte-identical persistent state. One twin is then restarted at chosen positions, the
//! other never, both are fed the same events and every observable is compared.

#![allow(dead_code)]

use std::path::{Path, PathBuf};

use mdk_core::prelude::*;
use mdk_core::{Error, MdkConfig};
use mdk_memory_storage::MdkMemoryStorage;
use mdk_sqlite_storage::{EncryptionConfig, MdkSqliteStorage};
use mdk_storage_traits::groups::GroupStorage;
use mdk_storage_traits::messages::MessageStorage;
use nostr::{Event, EventBuilder, EventId, Keys, Kind, PublicKey, RelayUrl, Timestamp, UnsignedEvent};
use openmls_traits::OpenMlsProvider;

pub type Mem = MDK<MdkMemoryStorage>;
pub type Sql = MDK<MdkSqliteStorage>;

/// splitmix64
pub struct Rng(pub u64);

impl Rng {
    pub fn next(&mut self) -> u64 {
        self.0 = self.0.wrapping_add(0x9E37_79B9_7F4A_7C15);
        let mut z = self.0;
        z = (z ^ (z >> 30)).wrapping_mul(0xBF58_476D_1CE4_E5B9);
        z = (z ^ (z >> 27)).wrapping_mul(0x94D0_49BB_1331_11EB);
        z ^ (z >> 31)
    }
    pub fn below(&mut self, n: usize) -> usize {
        (self.next() % (n as u64)) as usize
    }
    pub fn chance(&mut self, percent: u64) -> bool {
        self.next() % 100 < percent
    }
}

/// Records every rollback notification (structurally: no wrapper ids).
#[derive(Debug, Default)]
pub struct RollbackRecorder(pub std::sync::Mutex<Vec<String>>);

impl mdk_core::callback::MdkCallback for RollbackRecorder {
    fn on_rollback(&self, info: &mdk_core::callback::RollbackInfo) {
        self.0.lock().unwrap().push(format!(
            "rollback to epoch {} invalidated={} refetch={}",
            info.target_epoch,
            info.invalidated_messages.len(),
            info.messages_needing_refetch.len()
        ));
    }
}

pub fn open(path: &Path, key: Option<[u8; 32]>, config: &MdkConfig) -> Sql {
    open_cb(path, key, config, None)
}

pub fn open_cb(
    path: &Path,
    key: Option<[u8; 32]>,
    config: &MdkConfig,
    cb: Option<std::sync::Arc<RollbackRecorder>>,
) -> Sql {
    let storage = match key {
        Some(k) => MdkSqliteStorage::new_with_key(path, EncryptionConfig::new(k))
            .expect("open encrypted sqlite"),
        None => MdkSqliteStorage::new_unencrypted(path).expect("open sqlite"),
    };
    let b = MDK::builder(storage).with_config(config.clone());
    match cb {
        Some(cb) => b.with_callback(cb).build(),
        None => b.build(),
    }
}

pub struct Node {
    pub name: String,
    pub keys: Keys,
    pub path: PathBuf,
    pub key: Option<[u8; 32]>,
    pub config: MdkConfig,
    mdk: Option<Sql>,
    pub restart_count: usize,
    /// re-registered by the application at every start
    pub recorder: std::sync::Arc<RollbackRecorder>,
}

impl Node {
    pub fn new(dir: &Path, name: &str, keys: Keys, key: Option<[u8; 32]>, config: MdkConfig) -> Self {
        let path = dir.join(format!("{name}.sqlite"));
        let recorder = std::sync::Arc::new(RollbackRecorder::default());
        let mdk = open_cb(&path, key, &config, Some(recorder.clone()));
        Self {
            recorder,
            name: name.to_string(),
            keys,
            path,
            key,
            config,
            mdk: Some(mdk),
            restart_count: 0,
        }
    }

    pub fn m(&self) -> &Sql {
        self.mdk.as_ref().expect("node is open")
    }

    /// Clean shutdown + reopen from the file.
    pub fn restart(&mut self) {
        self.mdk = None; // drops MDK, EpochSnapshotManager, MdkSqliteStorage, the connection
        self.mdk = Some(open_cb(&self.path, self.key, &self.config, Some(self.recorder.clone())));
        self.restart_count += 1;
    }

    /// Copy the database file: the returned node has identical persistent state.
    /// `self` is closed for the copy and reopened (so call it only where that is harmless, e.g.
    /// before any group exists, or accept that both twins went through one restart here).
    pub fn fork(&mut self, dir: &Path, name: &str) -> Node {
        self.mdk = None;
        let path = dir.join(format!("{name}.sqlite"));
        std::fs::copy(&self.path, &path).expect("copy db");
        self.mdk = Some(open_cb(&self.path, self.key, &self.config, Some(self.recorder.clone())));
        let recorder = std::sync::Arc::new(RollbackRecorder::default());
        Node {
            recorder: recorder.clone(),
            name: name.to_string(),
            keys: self.keys.clone(),
            path: path.clone(),
            key: self.key,
            config: self.config.clone(),
            mdk: Some(open_cb(&path, self.key, &self.config, Some(recorder))),
            restart_count: 0,
        }
    }
}

pub fn relay() -> RelayUrl {
    RelayUrl::parse("wss://test.relay").unwrap()
}

pub fn kp_event<S: MdkStorageProvider>(mdk: &MDK<S>, keys: &Keys) -> Event {
    let (kp, tags, _hash_ref) = mdk
        .create_key_package_for_event(&keys.public_key(), vec![relay()])
        .expect("create key package");
    EventBuilder::new(Kind::MlsKeyPackage, kp)
        .tags(tags)
        .sign_with_keys(keys)
        .expect("sign kp")
}

pub fn group_config(admins: Vec<PublicKey>) -> NostrGroupConfigData {
    NostrGroupConfigData::new(
        "R11 group".to_string(),
        "restart twins".to_string(),
        Some([7u8; 32]),
        Some([8u8; 32]),
        Some([9u8; 12]),
        vec![relay(), RelayUrl::parse("wss://second.relay").unwrap()],
        admins,
    )
}

pub fn rumor(keys: &Keys, content: &str, created_at: u64) -> UnsignedEvent {
    EventBuilder::new(Kind::TextNote, content)
        .custom_created_at(Timestamp::from_secs(created_at))
        .build(keys.public_key())
}

/// Normalised rendering of a process_message outcome (no wall-clock, no randomness of the
/// receiver itself).
pub fn norm(r: &Result<MessageProcessingResult, Error>) -> String {
    match r {
        Ok(MessageProcessingResult::ApplicationMessage(m)) => format!(
            "App(id={}, content={:?}, state={:?}, epoch={:?}, wrapper={}, created_at={}, pubkey={})",
            m.id,
            m.content,
            m.state,
            m.epoch,
            m.wrapper_event_id,
            m.created_at.as_secs(),
            m.pubkey
        ),
        Ok(MessageProcessingResult::Proposal(u)) => format!(
            "Proposal(auto-commit, welcomes={})",
            u.welcome_rumors.as_ref().map(|w| w.len()).unwrap_or(0)
        ),
        Ok(MessageProcessingResult::PendingProposal { .. }) => "PendingProposal".to_string(),
        Ok(MessageProcessingResult::IgnoredProposal { reason, .. }) => {
            format!("IgnoredProposal({reason})")
        }
        Ok(MessageProcessingResult::ExternalJoinProposal { .. }) => {
            "ExternalJoinProposal".to_string()
        }
        Ok(MessageProcessingResult::Commit { .. }) => "Commit".to_string(),
        Ok(MessageProcessingResult::Unprocessable { .. }) => "Unprocessable".to_string(),
        Ok(MessageProcessingResult::PreviouslyFailed) => "PreviouslyFailed".to_string(),
        Err(e) => format!("Err({e})"),
    }
}

/// Everything observable about one group on one node, wall-clock fields normalised.
pub fn observe<S: MdkStorageProvider>(mdk: &MDK<S>, gid: &GroupId, known_events: &[EventId]) -> Vec<String> {
    let mut out = Vec::new();
    match mdk.get_group(gid) {
        Ok(Some(g)) => {
            out.push(format!("group.nostr_group_id={}", hex(&g.nostr_group_id)));
            out.push(format!("group.name={:?}", g.name));
            out.push(format!("group.description={:?}", g.description));
            out.push(format!("group.image_hash={:?}", g.image_hash.map(|h| hex(&h))));
            out.push(format!(
                "group.image_key={:?}",
                g.image_key.as_ref().map(|k| hex(&k[..]))
            ));
            out.push(format!(
                "group.image_nonce={:?}",
                g.image_nonce.as_ref().map(|k| hex(&k[..]))
            ));
            out.push(format!("group.admins={:?}", g.admin_pubkeys));
            out.push(format!("group.last_message_id={:?}", g.last_message_id));
            out.push(format!(
                "group.last_message_at={:?}",
                g.last_message_at.map(|t| t.as_secs())
            ));
            out.push(format!(
                "group.last_message_processed_at.is_some={}",
                g.last_message_processed_at.is_some()
            ));
            out.push(format!("group.epoch={}", g.epoch));
            out.push(format!("group.state={:?}", g.state));
            out.push(format!(
                "group.self_update={}",
                match g.self_update_state {
                    group_types::SelfUpdateState::Required => "Required",
                    group_types::SelfUpdateState::CompletedAt(_) => "CompletedAt",
                }
            ));
            // exporter secrets of every epoch up to the current one (+1 to see strays)
            for e in 0..=g.epoch + 1 {
                let s = mdk
                    .provider
                    .storage()
                    .get_group_exporter_secret(gid, e)
                    .map(|o| o.map(|s| hex(&s.secret[..])));
                out.push(format!("exporter[{e}]={s:?}"));
            }
        }
        other => out.push(format!("group={:?}", other.map(|o| o.is_some()))),
    }
    out.push(format!("members={:?}", mdk.get_members(gid).map_err(|e| e.to_string())));
    out.push(format!("relays={:?}", mdk.get_relays(gid).map_err(|e| e.to_string())));
    out.push(format!(
        "pending_changes={:?}",
        mdk.pending_member_changes(gid).map_err(|e| e.to_string())
    ));
    out.push(format!(
        "tree_hash={:?}",
        mdk.get_ratchet_tree_info(gid)
            .map(|t| t.tree_hash)
            .map_err(|e| e.to_string())
    ));
    match mdk.get_messages(gid, None) {
        Ok(msgs) => {
            out.push(format!("messages.len={}", msgs.len()));
            for m in msgs {
                out.push(format!(
                    "msg id={} content={:?} state={:?} epoch={:?} created_at={} wrapper={} pubkey={} kind={} tags={:?} event_id={:?}",
                    m.id,
                    m.content,
                    m.state,
                    m.epoch,
                    m.created_at.as_secs(),
                    m.wrapper_event_id,
                    m.pubkey,
                    m.kind,
                    m.tags,
                    m.event.id
                ));
            }
        }
        Err(e) => out.push(format!("messages=Err({e})")),
    }
    out.push(format!(
        "last_message={:?}",
        mdk.get_last_message(gid, mdk_storage_traits::groups::MessageSortOrder::CreatedAtFirst)
            .map(|m| m.map(|m| m.id))
            .map_err(|e| e.to_string())
    ));
    out.push(format!(
        "groups.len={:?}",
        mdk.get_groups().map(|g| g.len()).map_err(|e| e.to_string())
    ));
    out.push(format!(
        "pending_welcomes={:?}",
        mdk.get_pending_welcomes(None)
            .map(|w| w.iter().map(|w| (w.id, w.state)).collect::<Vec<_>>())
            .map_err(|e| e.to_string())
    ));
    for id in known_events {
        let pm = mdk
            .provider
            .storage()
            .find_processed_message_by_event_id(id)
            .map(|o| {
                o.map(|p| {
                    format!(
                        "state={:?} epoch={:?} msg={:?} reason={:?} gid_some={}",
                        p.state,
                        p.epoch,
                        p.message_event_id,
                        p.failure_reason,
                        p.mls_group_id.is_some()
                    )
                })
            })
            .map_err(|e| e.to_string());
        out.push(format!("processed[{id}]={pm:?}"));
    }
    out
}

pub fn hex(b: &[u8]) -> String {
    b.iter().map(|x| format!("{x:02x}")).collect()
}

/// Compare two observations and panic with the differing lines.
pub fn assert_same(tag: &str, a: &[String], b: &[String]) {
    if a != b {
        let mut diff = String::new();
        let n = a.len().max(b.len());
        for i in 0..n {
            let l = a.get(i).map(|s| s.as_str()).unwrap_or("<none>");
            let r = b.get(i).map(|s| s.as_str()).unwrap_or("<none>");
            if l != r {
                diff.push_str(&format!("  no-restart: {l}\n  restarted : {r}\n"));
            }
        }
        panic!("[{tag}] restarted twin differs from the never-restarted twin:\n{diff}");
    }
}

/// MIP-03 order: earliest created_at wins, then the smallest id.
pub fn mip03_better(a: &Event, b: &Event) -> bool {
    (a.created_at.as_secs(), a.id.to_hex()) < (b.created_at.as_secs(), b.id.to_hex())
}
