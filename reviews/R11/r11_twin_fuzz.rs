//! R11 / C11: twin receivers on SQLite, one restarted at random (or all) positions, one never.
//!
//! Bob's key package is created once, then the database file is copied: `bob_n` (never
//! restarted) and `bob_r` (restarted between API calls) are the same MLS member with the same
//! private keys. The rest of the group (memory storage) generates a random history: messages,
//! adds, removes, renames, self-updates (admin and non-admin), leave proposals + auto-commits,
//! competing commits, duplicates, reordering and late delivery. Both twins are fed the same
//! events in the same order and every result and every observable is compared.

mod r11_common;

use mdk_core::prelude::*;
use mdk_core::MdkConfig;
use mdk_memory_storage::MdkMemoryStorage;
use nostr::{Event, EventId, Keys};
use r11_common::*;

#[derive(Clone, Copy, PartialEq, Eq, Debug)]
enum EvKind {
    App,
    Proposal,
    Commit,
}

struct Actor {
    name: String,
    keys: Keys,
    mdk: Mem,
    in_group: bool,
}

impl Actor {
    fn new(name: &str) -> Self {
        Self {
            name: name.to_string(),
            keys: Keys::generate(),
            mdk: MDK::new(MdkMemoryStorage::default()),
            in_group: false,
        }
    }
}

struct World {
    actors: Vec<Actor>, // 0 = alice (admin, creator), 1 = carol (admin), 2.. = extras
    gid: GroupId,
    clock: u64,
    inbox: Vec<(EvKind, Event)>, // what Bob is to receive, in publication order
    log: Vec<String>,
    name_counter: usize,
}

impl World {
    /// Everybody in the group except `from` processes the event.
    fn publish(&mut self, from: usize, kind: EvKind, ev: &Event) {
        for (i, a) in self.actors.iter().enumerate() {
            if i == from || !a.in_group {
                continue;
            }
            let r = a.mdk.process_message(ev);
            match &r {
                Ok(MessageProcessingResult::Unprocessable { .. }) | Err(_) => panic!(
                    "world member {} could not process {:?} from {}: {}\nlog: {:#?}",
                    a.name,
                    kind,
                    self.actors[from].name,
                    norm(&r),
                    self.log
                ),
                _ => {}
            }
        }
        self.inbox.push((kind, ev.clone()));
    }

    fn members_in_group(&self) -> Vec<usize> {
        (0..self.actors.len())
            .filter(|i| self.actors[*i].in_group)
            .collect()
    }

    fn app_msg(&mut self, sender: usize) {
        let content = format!("msg-{}-from-{}", self.clock, self.actors[sender].name);
        let r = rumor(&self.actors[sender].keys, &content, self.clock);
        self.clock += 1;
        let ev = self.actors[sender]
            .mdk
            .create_message(&self.gid, r)
            .expect("create_message");
        self.log.push(format!("app {content}"));
        self.publish(sender, EvKind::App, &ev);
    }

    fn add(&mut self, admin: usize, extra: usize) {
        // a fresh client for the (re-)joining user
        self.actors[extra].mdk = MDK::new(MdkMemoryStorage::default());
        let kp = kp_event(&self.actors[extra].mdk, &self.actors[extra].keys);
        let res = self.actors[admin]
            .mdk
            .add_members(&self.gid, &[kp])
            .expect("add_members");
        self.actors[admin]
            .mdk
            .merge_pending_commit(&self.gid)
            .expect("merge add");
        self.log.push(format!(
            "add {} by {}",
            self.actors[extra].name, self.actors[admin].name
        ));
        self.publish(admin, EvKind::Commit, &res.evolution_event);
        let w = &res.welcome_rumors.expect("welcome")[0];
        let wrapper = EventId::from_slice(&self.clock.to_be_bytes().repeat(4)).unwrap();
        self.clock += 1;
        let welcome = self.actors[extra]
            .mdk
            .process_welcome(&wrapper, w)
            .expect("process_welcome");
        self.actors[extra]
            .mdk
            .accept_welcome(&welcome)
            .expect("accept_welcome");
        self.actors[extra].in_group = true;
    }

    fn remove(&mut self, admin: usize, extra: usize) {
        let pk = self.actors[extra].keys.public_key();
        let res = self.actors[admin]
            .mdk
            .remove_members(&self.gid, &[pk])
            .expect("remove_members");
        self.actors[admin]
            .mdk
            .merge_pending_commit(&self.gid)
            .expect("merge remove");
        self.log.push(format!(
            "remove {} by {}",
            self.actors[extra].name, self.actors[admin].name
        ));
        self.publish(admin, EvKind::Commit, &res.evolution_event);
        self.actors[extra].in_group = false;
    }

    fn rename_commit(&mut self, admin: usize) -> Event {
        self.name_counter += 1;
        let upd = NostrGroupDataUpdate {
            name: Some(format!("name-{}", self.name_counter)),
            description: Some(format!("desc-{}", self.name_counter)),
            ..Default::default()
        };
        self.actors[admin]
            .mdk
            .update_group_data(&self.gid, upd)
            .expect("update_group_data")
            .evolution_event
    }

    fn rename(&mut self, admin: usize) {
        let ev = self.rename_commit(admin);
        self.actors[admin]
            .mdk
            .merge_pending_commit(&self.gid)
            .expect("merge rename");
        self.log.push(format!("rename by {}", self.actors[admin].name));
        self.publish(admin, EvKind::Commit, &ev);
    }

    fn self_update(&mut self, who: usize) {
        let ev = self.actors[who]
            .mdk
            .self_update(&self.gid)
            .expect("self_update")
            .evolution_event;
        self.actors[who]
            .mdk
            .merge_pending_commit(&self.gid)
            .expect("merge self_update");
        self.log.push(format!("self_update by {}", self.actors[who].name));
        self.publish(who, EvKind::Commit, &ev);
    }

    /// Alice and Carol commit at the same epoch. The MIP-03 winner is what the world applies.
    /// Returns (winner, loser).
    fn fork(&mut self, rng: &mut Rng) -> (Event, Event) {
        let a = self.rename_commit(0);
        let c = if rng.chance(50) {
            self.rename_commit(1)
        } else {
            self.actors[1]
                .mdk
                .self_update(&self.gid)
                .expect("carol self_update")
                .evolution_event
        };
        let (winner_idx, winner, loser_idx, loser) = if mip03_better(&a, &c) {
            (0usize, a, 1usize, c)
        } else {
            (1usize, c, 0usize, a)
        };
        self.actors[loser_idx]
            .mdk
            .clear_pending_commit(&self.gid)
            .expect("clear loser");
        self.actors[winner_idx]
            .mdk
            .merge_pending_commit(&self.gid)
            .expect("merge winner");
        self.log.push(format!(
            "fork: winner {} loser {}",
            self.actors[winner_idx].name, self.actors[loser_idx].name
        ));
        // the world (incl. the loser) applies the winner; Bob's inbox is filled by the caller
        for (i, act) in self.actors.iter().enumerate() {
            if i == winner_idx || !act.in_group {
                continue;
            }
            let r = act.mdk.process_message(&winner);
            assert!(
                matches!(r, Ok(MessageProcessingResult::Commit { .. })),
                "{} on winner: {}",
                act.name,
                norm(&r)
            );
        }
        (winner, loser)
    }

    /// A non-admin extra leaves: proposal, Alice auto-commits, Carol discards her auto-commit.
    fn leave(&mut self, extra: usize) {
        let prop = self.actors[extra]
            .mdk
            .leave_group(&self.gid)
            .expect("leave_group")
            .evolution_event;
        self.log.push(format!("leave by {}", self.actors[extra].name));
        // Alice first: she auto-commits
        let r = self.actors[0].mdk.process_message(&prop);
        let commit = match r {
            Ok(MessageProcessingResult::Proposal(u)) => u.evolution_event,
            other => panic!("alice on leave proposal: {}", norm(&other)),
        };
        self.actors[0]
            .mdk
            .merge_pending_commit(&self.gid)
            .expect("merge leave commit");
        // Carol: auto-commits too, discards it
        let r = self.actors[1].mdk.process_message(&prop);
        match r {
            Ok(MessageProcessingResult::Proposal(_)) => {
                self.actors[1]
                    .mdk
                    .clear_pending_commit(&self.gid)
                    .expect("carol clear");
            }
            other => panic!("carol on leave proposal: {}", norm(&other)),
        }
        // other extras: pending proposal
        for i in 2..self.actors.len() {
            if i == extra || !self.actors[i].in_group {
                continue;
            }
            let r = self.actors[i].mdk.process_message(&prop);
            assert!(
                matches!(r, Ok(MessageProcessingResult::PendingProposal { .. })),
                "{} on leave proposal: {}",
                self.actors[i].name,
                norm(&r)
            );
        }
        self.inbox.push((EvKind::Proposal, prop));
        self.publish(0, EvKind::Commit, &commit);
        self.actors[extra].in_group = false;
    }
}

struct Twins {
    n: Node,
    r: Node,
    known: Vec<EventId>,
    seen: Vec<Event>,
    delivered: usize,
    histogram: std::collections::BTreeMap<String, usize>,
}

impl Twins {
    fn deliver(&mut self, ev: &Event, rng: &mut Rng, p_restart: u64, tag: &str) {
        let rn = norm(&self.n.m().process_message(ev));
        if rng.chance(p_restart) {
            self.r.restart();
        }
        let rr = norm(&self.r.m().process_message(ev));
        assert_eq!(
            rn, rr,
            "[{tag}] delivery #{} of event {}: never-restarted twin vs restarted twin (restarts so far {})",
            self.delivered, ev.id, self.r.restart_count
        );
        self.delivered += 1;
        let key: String = format!("{tag}: {}", rn.split('(').next().unwrap_or(""));
        *self.histogram.entry(key).or_default() += 1;
        if !self.known.contains(&ev.id) {
            self.known.push(ev.id);
            self.seen.push(ev.clone());
        }
    }

    fn compare(&self, gid: &GroupId, tag: &str) {
        let mut a = observe(self.n.m(), gid, &self.known);
        let mut b = observe(self.r.m(), gid, &self.known);
        a.push(format!("callbacks={:?}", self.n.recorder.0.lock().unwrap()));
        b.push(format!("callbacks={:?}", self.r.recorder.0.lock().unwrap()));
        assert_same(tag, &a, &b);
    }
}

#[derive(Clone, Copy)]
struct Params {
    seed: u64,
    steps: usize,
    p_restart: u64,   // percent, before each delivery
    loser_first: bool, // deliver the losing fork commit before the winner (rollback needed)
    restart_inside_fork: bool, // restart between loser and winner: the KNOWN weakness
    bob_admin: bool,
    encrypted: bool,
    config_small: bool,
}

fn run(p: Params) {
    let dir = tempfile::tempdir().unwrap();
    let mut rng = Rng(p.seed);
    let config = if p.config_small {
        MdkConfig {
            out_of_order_tolerance: 3,
            maximum_forward_distance: 20,
            max_past_epochs: 2,
            epoch_snapshot_retention: 2,
            ..Default::default()
        }
    } else {
        MdkConfig::default()
    };
    let key = if p.encrypted { Some([0x5au8; 32]) } else { None };

    // Bob: key package on the seed database, then copy
    let bob_keys = Keys::generate();
    let mut seed = Node::new(dir.path(), "bob_seed", bob_keys.clone(), key, config.clone());
    let bob_kp = kp_event(seed.m(), &bob_keys);
    let n = seed.fork(dir.path(), "bob_n");
    let r = seed.fork(dir.path(), "bob_r");
    drop(seed);
    let mut t = Twins {
        n,
        r,
        known: vec![],
        seen: vec![],
        delivered: 0,
        histogram: Default::default(),
    };

    // world
    let mut actors = vec![Actor::new("alice"), Actor::new("carol")];
    for nme in ["dave", "eve", "frank"] {
        actors.push(Actor::new(nme));
    }
    let carol_kp = kp_event(&actors[1].mdk, &actors[1].keys);
    let mut admins = vec![actors[0].keys.public_key(), actors[1].keys.public_key()];
    if p.bob_admin {
        admins.push(bob_keys.public_key());
    }
    let created = actors[0]
        .mdk
        .create_group(
            &actors[0].keys.public_key(),
            vec![bob_kp, carol_kp],
            group_config(admins),
        )
        .expect("create_group");
    let gid = created.group.mls_group_id.clone();
    actors[0].mdk.merge_pending_commit(&gid).unwrap();
    actors[0].in_group = true;
    let cw = actors[1]
        .mdk
        .process_welcome(&EventId::all_zeros(), &created.welcome_rumors[1])
        .unwrap();
    actors[1].mdk.accept_welcome(&cw).unwrap();
    actors[1].in_group = true;

    // Bob twins: welcome, restart, accept, restart
    let wrapper = EventId::from_slice(&[0xabu8; 32]).unwrap();
    let wn = t.n.m().process_welcome(&wrapper, &created.welcome_rumors[0]).unwrap();
    if rng.chance(p.p_restart) {
        t.r.restart();
    }
    let wr = t.r.m().process_welcome(&wrapper, &created.welcome_rumors[0]).unwrap();
    assert_eq!(format!("{wn:?}"), format!("{wr:?}"));
    if rng.chance(p.p_restart) {
        t.r.restart();
    }
    t.compare(&gid, "after process_welcome");
    // the welcome as re-read after the restart
    let wr2 = t.r.m().get_welcome(&wr.id).unwrap().unwrap();
    assert_eq!(format!("{wn:?}"), format!("{wr2:?}"));
    t.n.m().accept_welcome(&wn).unwrap();
    t.r.m().accept_welcome(&wr2).unwrap();
    if rng.chance(p.p_restart) {
        t.r.restart();
    }
    t.compare(&gid, "after accept_welcome");

    let mut w = World {
        actors,
        gid: gid.clone(),
        clock: 1_700_000_000,
        inbox: vec![],
        log: vec![],
        name_counter: 0,
    };

    let mut next = 0usize; // next inbox index to hand to Bob
    let mut late: Vec<(usize, Event)> = vec![];

    for step in 0..p.steps {
        // ---- one world action
        let roll = rng.below(100);
        let in_group = w.members_in_group();
        let extras_in: Vec<usize> = in_group.iter().copied().filter(|i| *i >= 2).collect();
        let extras_out: Vec<usize> = (2..w.actors.len()).filter(|i| !w.actors[*i].in_group).collect();
        let mut fork_pair: Option<(Event, Event)> = None;
        if roll < 40 {
            let s = in_group[rng.below(in_group.len())];
            w.app_msg(s);
            if rng.chance(50) {
                let s = in_group[rng.below(in_group.len())];
                w.app_msg(s);
            }
        } else if roll < 50 && !extras_out.is_empty() {
            let e = extras_out[rng.below(extras_out.len())];
            w.add(rng.below(2), e);
        } else if roll < 57 && !extras_in.is_empty() {
            let e = extras_in[rng.below(extras_in.len())];
            w.remove(rng.below(2), e);
        } else if roll < 65 {
            w.rename(rng.below(2));
        } else if roll < 75 {
            let s = in_group[rng.below(in_group.len())];
            w.self_update(s);
        } else if roll < 88 {
            fork_pair = Some(w.fork(&mut rng));
        } else if !extras_in.is_empty() {
            let e = extras_in[rng.below(extras_in.len())];
            w.leave(e);
        } else {
            let s = in_group[rng.below(in_group.len())];
            w.app_msg(s);
        }

        if let Some((winner, loser)) = fork_pair {
            if p.loser_first {
                // Bob must be up to date to apply the loser, and the pair is delivered without a
                // restart in between: a restart between the two is the KNOWN weakness
                // (hydrated snapshots carry applied_commit_ts = 0).
                while next < w.inbox.len() {
                    let ev = w.inbox[next].1.clone();
                    next += 1;
                    t.deliver(&ev, &mut rng, p.p_restart, "flush before fork");
                }
                t.deliver(&loser, &mut rng, p.p_restart, "fork loser first");
                let inside = if p.restart_inside_fork { 100 } else { 0 };
                t.deliver(&winner, &mut rng, inside, "fork winner second (rollback)");
                t.compare(&gid, &format!("step {step} after rollback"));
                if rng.chance(p.p_restart) {
                    t.r.restart();
                }
            } else {
                w.inbox.push((EvKind::Commit, winner));
                w.inbox.push((EvKind::Commit, loser));
            }
        }

        // ---- deliveries to Bob
        let mut i = 0;
        while i < late.len() {
            if late[i].0 <= step {
                let ev = late.remove(i).1;
                t.deliver(&ev, &mut rng, p.p_restart, "late app");
            } else {
                i += 1;
            }
        }
        if rng.chance(75) {
            while next < w.inbox.len() {
                let (kind, ev) = w.inbox[next].clone();
                next += 1;
                if kind == EvKind::App && rng.chance(25) {
                    late.push((step + 1 + rng.below(8), ev));
                    continue;
                }
                t.deliver(&ev, &mut rng, p.p_restart, "in order");
            }
        }
        if !t.seen.is_empty() && rng.chance(20) {
            let ev = t.seen[rng.below(t.seen.len())].clone();
            t.deliver(&ev, &mut rng, p.p_restart, "duplicate");
        }
        t.compare(&gid, &format!("step {step}"));
    }

    // ---- drain
    while next < w.inbox.len() {
        let ev = w.inbox[next].1.clone();
        next += 1;
        t.deliver(&ev, &mut rng, p.p_restart, "drain");
    }
    for (_, ev) in late.drain(..) {
        t.deliver(&ev, &mut rng, p.p_restart, "drain late");
    }
    t.compare(&gid, "final");

    // Bob must have followed the world
    let world_epoch = w.actors[0].mdk.get_group(&gid).unwrap().unwrap().epoch;
    let bob_epoch = t.n.m().get_group(&gid).unwrap().unwrap().epoch;
    assert_eq!(world_epoch, bob_epoch, "bob did not follow the world; log {:#?}", w.log);

    // ---- functional end check: each twin sends, a different world member reads
    t.r.restart();
    t.r.restart();
    let ev_r = t
        .r
        .m()
        .create_message(&gid, rumor(&bob_keys, "from restarted bob", w.clock))
        .expect("restarted bob create_message");
    let ev_n = t
        .n
        .m()
        .create_message(&gid, rumor(&bob_keys, "from restarted bob", w.clock))
        .expect("bob create_message");
    let ra = w.actors[0].mdk.process_message(&ev_r);
    let rc = w.actors[1].mdk.process_message(&ev_n);
    assert!(
        matches!(ra, Ok(MessageProcessingResult::ApplicationMessage(_))),
        "alice on restarted bob's message: {}",
        norm(&ra)
    );
    assert!(
        matches!(rc, Ok(MessageProcessingResult::ApplicationMessage(_))),
        "carol on bob's message: {}",
        norm(&rc)
    );
    // own echo after one more restart
    t.r.restart();
    let en = norm(&t.n.m().process_message(&ev_n)).replace(&ev_n.id.to_string(), "W");
    let er = norm(&t.r.m().process_message(&ev_r)).replace(&ev_r.id.to_string(), "W");
    assert_eq!(en, er, "own echo");
    eprintln!(
        "seed {} ok: {} deliveries, {} restarts, final epoch {}\n{:#?}",
        p.seed, t.delivered, t.r.restart_count, bob_epoch, t.histogram
    );
}

fn seeds() -> Vec<u64> {
    match std::env::var("R11_SEEDS") {
        Ok(s) => s.split(',').filter_map(|x| x.trim().parse().ok()).collect(),
        Err(_) => (1..=6).collect(),
    }
}

fn steps() -> usize {
    std::env::var("R11_STEPS")
        .ok()
        .and_then(|s| s.parse().ok())
        .unwrap_or(40)
}

#[test]
fn twin_fuzz_winner_first_random_restarts() {
    for seed in seeds() {
        run(Params {
            seed,
            steps: steps(),
            p_restart: 40,
            loser_first: false,
            restart_inside_fork: false,
            bob_admin: false,
            encrypted: false,
            config_small: false,
        });
    }
}

#[test]
fn twin_fuzz_winner_first_restart_everywhere() {
    for seed in seeds() {
        run(Params {
            seed: seed + 1000,
            steps: steps(),
            p_restart: 100,
            loser_first: false,
            restart_inside_fork: false,
            bob_admin: false,
            encrypted: false,
            config_small: false,
        });
    }
}

#[test]
fn twin_fuzz_loser_first_rollbacks() {
    for seed in seeds() {
        run(Params {
            seed: seed + 2000,
            steps: steps(),
            p_restart: 60,
            loser_first: true,
            restart_inside_fork: false,
            bob_admin: false,
            encrypted: false,
            config_small: false,
        });
    }
}

#[test]
fn twin_fuzz_small_windows_encrypted() {
    for seed in seeds() {
        run(Params {
            seed: seed + 3000,
            steps: steps(),
            p_restart: 70,
            loser_first: true,
            restart_inside_fork: false,
            bob_admin: false,
            encrypted: true,
            config_small: true,
        });
    }
}

#[test]
fn twin_fuzz_bob_admin() {
    for seed in seeds() {
        run(Params {
            seed: seed + 4000,
            steps: steps(),
            p_restart: 70,
            loser_first: true,
            restart_inside_fork: false,
            bob_admin: true,
            encrypted: false,
            config_small: false,
        });
    }
}

/// Sensitivity check of the harness: a restart between the losing and the winning commit is the
/// KNOWN weakness (hydrated snapshots have applied_commit_ts = 0) and must be detected.
#[test]
#[should_panic(expected = "never-restarted twin vs restarted twin")]
fn harness_detects_the_known_weakness() {
    run(Params {
        seed: 2001,
        steps: steps(),
        p_restart: 0,
        loser_first: true,
        restart_inside_fork: true,
        bob_admin: false,
        encrypted: false,
        config_small: false,
    });
}
