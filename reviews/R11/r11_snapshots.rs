//! R11 / C11: what a restart does to the epoch-snapshot bookkeeping BESIDES the known loss of
//! `applied_commit_ts` (known weakness, not re-reported):
//!
//!  * hydration order: `list_group_snapshots` orders by `created_at` (1 s resolution) only.
//!    Hypothesis: snapshots taken within the same second come back in name order
//!    ("..._10_" < "..._8_") and the retention prune after a restart evicts the wrong one.
//!    REFUTED: SQLite returns ties in insertion order here, both twins keep the same set.
//!  * TTL: expired snapshots are pruned at start-up only, a long-running instance never prunes.
//!    CONFIRMED at storage level (strict test fails), but not visible through the MDK API:
//!    every snapshot that exists at start-up is a hydrated one, and a hydrated snapshot is never
//!    used for a rollback at all (the known weakness masks it).
//!  * stale snapshots of a previous membership (side observation, `#[ignore]`d, fails): same
//!    root cause as the known weakness, but here the never-restarted node misbehaves.

mod r11_common;

use mdk_core::prelude::*;
use mdk_core::MdkConfig;
use mdk_memory_storage::MdkMemoryStorage;
use nostr::{Event, EventId, Keys};
use openmls_traits::OpenMlsProvider;
use r11_common::*;

fn wait_for_fresh_second() {
    loop {
        let now = std::time::SystemTime::now()
            .duration_since(std::time::UNIX_EPOCH)
            .unwrap();
        if now.subsec_millis() < 40 {
            return;
        }
        std::thread::sleep(std::time::Duration::from_millis(5));
    }
}

fn snapshot_epochs(node: &Node, gid: &GroupId) -> Vec<(u64, u64)> {
    // (epoch parsed from the name, created_at) in the order the storage lists them
    node.m()
        .provider
        .storage()
        .list_group_snapshots(gid)
        .unwrap()
        .into_iter()
        .map(|(name, at)| {
            let parts: Vec<&str> = name.split('_').collect();
            (parts[2].parse::<u64>().unwrap(), at)
        })
        .collect()
}

struct Setup {
    _dir: tempfile::TempDir,
    alice: Mem,
    alice_keys: Keys,
    n: Node,
    r: Node,
    gid: GroupId,
    known: Vec<EventId>,
}

fn setup(config: MdkConfig) -> Setup {
    let dir = tempfile::tempdir().unwrap();
    let alice: Mem = MDK::new(MdkMemoryStorage::default());
    let alice_keys = Keys::generate();
    let bob_keys = Keys::generate();
    let mut seed = Node::new(dir.path(), "seed", bob_keys.clone(), None, config);
    let kp = kp_event(seed.m(), &bob_keys);
    let n = seed.fork(dir.path(), "n");
    let r = seed.fork(dir.path(), "r");
    drop(seed);
    let created = alice
        .create_group(&alice_keys.public_key(), vec![kp], group_config(vec![alice_keys.public_key()]))
        .unwrap();
    let gid = created.group.mls_group_id.clone();
    alice.merge_pending_commit(&gid).unwrap();
    for node in [&n, &r] {
        let w = node
            .m()
            .process_welcome(&EventId::all_zeros(), &created.welcome_rumors[0])
            .unwrap();
        node.m().accept_welcome(&w).unwrap();
    }
    Setup {
        _dir: dir,
        alice,
        alice_keys,
        n,
        r,
        gid,
        known: vec![],
    }
}

fn alice_commit(s: &mut Setup, i: usize) -> Event {
    let ev = s
        .alice
        .update_group_data(
            &s.gid,
            NostrGroupDataUpdate {
                name: Some(format!("n{i}")),
                ..Default::default()
            },
        )
        .unwrap()
        .evolution_event;
    s.alice.merge_pending_commit(&s.gid).unwrap();
    s.known.push(ev.id);
    ev
}

/// Returns (stored snapshot epochs of N, of R) after: 12 commits processed within one second,
/// restart of R, one more commit.
fn same_second_history() -> (Vec<u64>, Vec<u64>, Setup) {
    let mut s = setup(MdkConfig::default()); // retention 5
    let commits: Vec<Event> = (0..12).map(|i| alice_commit(&mut s, i)).collect();
    for which in 0..2 {
        loop {
            // all of them inside one wall-clock second
            wait_for_fresh_second();
            let node = if which == 0 { &s.n } else { &s.r };
            let already = node.m().get_group(&s.gid).unwrap().unwrap().epoch as usize - 1;
            for c in &commits[already..] {
                let r = node.m().process_message(c);
                assert!(matches!(r, Ok(MessageProcessingResult::Commit { .. })), "{}", norm(&r));
            }
            let snaps = snapshot_epochs(node, &s.gid);
            assert_eq!(snaps.len(), 5);
            if snaps.iter().all(|(_, at)| *at == snaps[0].1) {
                break;
            }
            // straddled a second boundary: cannot redo, accept if at least the 9/10 boundary ties
            let at9 = snaps.iter().find(|(e, _)| *e == 9).map(|x| x.1);
            let at10 = snaps.iter().find(|(e, _)| *e == 10).map(|x| x.1);
            assert_eq!(at9, at10, "history straddled a second boundary between epochs 9 and 10; rerun");
            break;
        }
    }
    eprintln!("N lists (epoch, created_at): {:?}", snapshot_epochs(&s.n, &s.gid));
    eprintln!("R lists (epoch, created_at): {:?}", snapshot_epochs(&s.r, &s.gid));

    s.r.restart();
    let c13 = alice_commit(&mut s, 13);
    for node in [&s.n, &s.r] {
        let r = node.m().process_message(&c13);
        assert!(matches!(r, Ok(MessageProcessingResult::Commit { .. })), "{}", norm(&r));
    }
    let mut en: Vec<u64> = snapshot_epochs(&s.n, &s.gid).into_iter().map(|x| x.0).collect();
    let mut er: Vec<u64> = snapshot_epochs(&s.r, &s.gid).into_iter().map(|x| x.0).collect();
    en.sort();
    er.sort();
    eprintln!("stored snapshot epochs after one more commit: never-restarted {en:?}, restarted {er:?}");
    (en, er, s)
}

#[test]
fn same_second_hydration_order_is_not_visible_through_the_api() {
    let (_en, _er, s) = same_second_history();
    assert_same(
        "api after same-second hydration",
        &observe(s.n.m(), &s.gid, &s.known),
        &observe(s.r.m(), &s.gid, &s.known),
    );
}

/// Strict storage-level variant: FAILS on the unmodified tree (restarted node evicts the snapshot
/// of epoch 10 instead of the oldest one). Masked at API level by the known weakness.
#[test]
#[ignore]
fn strict_same_second_hydration_keeps_the_same_snapshots() {
    let (en, er, _s) = same_second_history();
    assert_eq!(en, er, "stored snapshot epochs differ between never-restarted and restarted node");
}

fn ttl_history() -> (usize, usize, Setup) {
    let mut s = setup(MdkConfig {
        snapshot_ttl_seconds: 1,
        ..Default::default()
    });
    for i in 0..3 {
        let c = alice_commit(&mut s, i);
        for node in [&s.n, &s.r] {
            let r = node.m().process_message(&c);
            assert!(matches!(r, Ok(MessageProcessingResult::Commit { .. })), "{}", norm(&r));
        }
    }
    std::thread::sleep(std::time::Duration::from_millis(2100));
    s.r.restart(); // start-up prune of snapshots older than 1 s
    let ln = snapshot_epochs(&s.n, &s.gid).len();
    let lr = snapshot_epochs(&s.r, &s.gid).len();
    eprintln!("stored snapshots: never-restarted {ln}, restarted {lr}");
    (ln, lr, s)
}

#[test]
fn ttl_prune_at_startup_is_not_visible_through_the_api() {
    let (_ln, _lr, mut s) = ttl_history();
    assert_same(
        "api after ttl prune",
        &observe(s.n.m(), &s.gid, &s.known),
        &observe(s.r.m(), &s.gid, &s.known),
    );
    // a race entirely inside the new session is still resolved identically
    let a = s
        .alice
        .update_group_data(&s.gid, NostrGroupDataUpdate { name: Some("winner".into()), ..Default::default() })
        .unwrap()
        .evolution_event;
    s.alice.clear_pending_commit(&s.gid).unwrap();
    std::thread::sleep(std::time::Duration::from_millis(1100));
    let b = s
        .alice
        .update_group_data(&s.gid, NostrGroupDataUpdate { name: Some("loser".into()), ..Default::default() })
        .unwrap()
        .evolution_event;
    s.alice.clear_pending_commit(&s.gid).unwrap();
    let _ = &s.alice_keys;
    for ev in [&b, &a] {
        let rn = norm(&s.n.m().process_message(ev));
        let rr = norm(&s.r.m().process_message(ev));
        assert_eq!(rn, rr);
        assert_eq!(rn, "Commit");
    }
    assert_eq!(s.n.m().get_group(&s.gid).unwrap().unwrap().name, "winner");
    assert_eq!(s.r.m().get_group(&s.gid).unwrap().unwrap().name, "winner");
}

/// Strict storage-level variant: FAILS on the unmodified tree (TTL is enforced at start-up only).
#[test]
#[ignore]
fn strict_ttl_is_enforced_the_same_with_and_without_restart() {
    let (ln, lr, _s) = ttl_history();
    assert_eq!(ln, lr, "number of stored snapshots differs");
}

/// SIDE OBSERVATION (same root cause as the known weakness, opposite direction): snapshots of a
/// PREVIOUS membership survive eviction and re-join. A never-restarted node still holds their
/// timestamps and rolls back to the pre-eviction state when an old competing commit of that
/// epoch is (re)delivered; a restarted node refuses it. Here the restarted node is the one that
/// behaves sensibly.
#[test]
#[ignore]
fn side_observation_stale_snapshot_of_previous_membership() {
    let dir = tempfile::tempdir().unwrap();
    let alice: Mem = MDK::new(MdkMemoryStorage::default());
    let alice_keys = Keys::generate();
    let bob_keys = Keys::generate();
    let mut seed = Node::new(dir.path(), "seed", bob_keys.clone(), None, MdkConfig::default());
    let kp1 = kp_event(seed.m(), &bob_keys);
    let kp2 = kp_event(seed.m(), &bob_keys);
    let n = seed.fork(dir.path(), "n");
    let mut r = seed.fork(dir.path(), "r");
    drop(seed);
    let created = alice
        .create_group(&alice_keys.public_key(), vec![kp1], group_config(vec![alice_keys.public_key()]))
        .unwrap();
    let gid = created.group.mls_group_id.clone();
    alice.merge_pending_commit(&gid).unwrap();
    for node in [&n, &r] {
        let w = node.m().process_welcome(&EventId::all_zeros(), &created.welcome_rumors[0]).unwrap();
        node.m().accept_welcome(&w).unwrap();
    }
    // epoch 1: an older commit L1 that never made it, then c1 which everybody applied
    let l1 = alice
        .update_group_data(&gid, NostrGroupDataUpdate { name: Some("never-applied".into()), ..Default::default() })
        .unwrap()
        .evolution_event;
    alice.clear_pending_commit(&gid).unwrap();
    std::thread::sleep(std::time::Duration::from_millis(1100));
    let c1 = alice
        .update_group_data(&gid, NostrGroupDataUpdate { name: Some("applied".into()), ..Default::default() })
        .unwrap()
        .evolution_event;
    alice.merge_pending_commit(&gid).unwrap();
    // epoch 2: bob is removed; epoch 3: bob is invited again
    let rm = alice.remove_members(&gid, &[bob_keys.public_key()]).unwrap().evolution_event;
    alice.merge_pending_commit(&gid).unwrap();
    let readd = alice.add_members(&gid, &[kp2]).unwrap();
    alice.merge_pending_commit(&gid).unwrap();
    for node in [&n, &r] {
        for ev in [&c1, &rm] {
            let x = node.m().process_message(ev);
            assert!(matches!(x, Ok(MessageProcessingResult::Commit { .. })), "{}", norm(&x));
        }
        let w = node
            .m()
            .process_welcome(&EventId::from_slice(&[1u8; 32]).unwrap(), &readd.welcome_rumors.as_ref().unwrap()[0])
            .unwrap();
        node.m().accept_welcome(&w).unwrap();
        assert_eq!(node.m().get_group(&gid).unwrap().unwrap().epoch, 4);
    }
    r.restart();
    let known = vec![l1.id, c1.id, rm.id];
    let rn = norm(&n.m().process_message(&l1));
    let rr = norm(&r.m().process_message(&l1));
    eprintln!("late L1: never-restarted {rn}, restarted {rr}");
    eprintln!(
        "epoch/name: never-restarted {:?}, restarted {:?}",
        n.m().get_group(&gid).unwrap().map(|g| (g.epoch, g.name)),
        r.m().get_group(&gid).unwrap().map(|g| (g.epoch, g.name))
    );
    assert_same("stale snapshot", &observe(n.m(), &gid, &known), &observe(r.m(), &gid, &known));
}
