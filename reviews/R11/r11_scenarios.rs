//! R11 / C11: scripted histories in which the node under test performs its OWN operations
//! (key package, welcome, self-update, add/remove with pending commit, clear, own echo,
//! auto-commit of a leave proposal, group data update, eviction) with a clean drop + reopen of
//! `MDK::new(MdkSqliteStorage)` between every two API calls.
//!
//! The same script is run twice, once with and once without restarts, on fixed Nostr identities
//! and fixed rumor timestamps; a structural log (no wrapper ids, no key material) of every result
//! and of the observable state after every step is compared line by line.

mod r11_common;

use mdk_core::prelude::*;
use mdk_core::MdkConfig;
use mdk_memory_storage::MdkMemoryStorage;
use nostr::{EventId, Keys, RelayUrl};
use r11_common::*;

fn fixed_keys(n: u8) -> Keys {
    Keys::parse(&hex(&[n; 32])).expect("fixed key")
}

/// Structural view of a group on a node (nothing random: no wrapper ids, keys, tree hash).
fn view<S: MdkStorageProvider>(mdk: &MDK<S>, gid: &GroupId) -> Vec<String> {
    let mut out = vec![];
    match mdk.get_group(gid) {
        Ok(Some(g)) => {
            out.push(format!(
                "group name={:?} desc={:?} img={:?}/{:?}/{:?} admins={:?} epoch={} state={:?} su={} last={:?}@{:?} nostr_gid={}",
                g.name,
                g.description,
                g.image_hash.map(|h| hex(&h)),
                g.image_key.as_ref().map(|k| hex(&k[..])),
                g.image_nonce.as_ref().map(|k| hex(&k[..])),
                g.admin_pubkeys,
                g.epoch,
                g.state,
                matches!(g.self_update_state, group_types::SelfUpdateState::Required),
                g.last_message_id,
                g.last_message_at.map(|t| t.as_secs()),
                if g.nostr_group_id == [0x44; 32] { "rotated" } else { "initial(random)" },
            ));
        }
        other => out.push(format!("group={:?}", other.map(|o| o.is_some()))),
    }
    out.push(format!("members={:?}", mdk.get_members(gid).map_err(|e| e.to_string())));
    out.push(format!("relays={:?}", mdk.get_relays(gid).map_err(|e| e.to_string())));
    out.push(format!(
        "pending={:?}",
        mdk.pending_member_changes(gid).map_err(|e| e.to_string())
    ));
    out.push(format!(
        "need_su={:?}",
        mdk.groups_needing_self_update(1_000_000)
            .map(|v| v.len())
            .map_err(|e| e.to_string())
    ));
    match mdk.get_messages(gid, None) {
        Ok(msgs) => {
            for m in msgs {
                out.push(format!(
                    "msg {} {:?} {:?} epoch={:?} at={} by={}",
                    m.id,
                    m.content,
                    m.state,
                    m.epoch,
                    m.created_at.as_secs(),
                    m.pubkey
                ));
            }
        }
        Err(e) => out.push(format!("messages=Err({e})")),
    }
    out.push(format!(
        "welcomes={:?}",
        mdk.get_pending_welcomes(None)
            .map(|w| w
                .iter()
                .map(|w| (w.group_name.clone(), w.state, w.member_count))
                .collect::<Vec<_>>())
            .map_err(|e| e.to_string())
    ));
    out
}

fn snorm(r: &Result<MessageProcessingResult, mdk_core::Error>) -> String {
    match r {
        Ok(MessageProcessingResult::ApplicationMessage(m)) => {
            format!("App({}, {:?}, {:?}, {:?})", m.id, m.content, m.state, m.epoch)
        }
        other => norm(other),
    }
}

struct Script {
    restarts: bool,
    log: Vec<String>,
    bob: Node,
    carol: Node,
}

impl Script {
    /// The restart point between two API calls.
    fn rp(&mut self) {
        if self.restarts {
            self.bob.restart();
            self.carol.restart();
        }
    }
    fn note(&mut self, s: String) {
        if std::env::var("R11_TRACE").is_ok() {
            eprintln!("{s}");
        }
        self.log.push(s);
    }
    fn snap(&mut self, tag: &str, gid: &GroupId) {
        for l in view(self.bob.m(), gid) {
            self.log.push(format!("[{tag}] bob   {l}"));
        }
        for l in view(self.carol.m(), gid) {
            self.log.push(format!("[{tag}] carol {l}"));
        }
    }
}

fn script(restarts: bool, key: Option<[u8; 32]>) -> Vec<String> {
    let dir = tempfile::tempdir().unwrap();
    let alice_keys = fixed_keys(1);
    let bob_keys = fixed_keys(2);
    let carol_keys = fixed_keys(3);
    let dave_keys = fixed_keys(4);
    let eve_keys = fixed_keys(5);
    let alice: Mem = MDK::new(MdkMemoryStorage::default());
    let dave: Mem = MDK::new(MdkMemoryStorage::default());
    let eve: Mem = MDK::new(MdkMemoryStorage::default());
    let mut s = Script {
        restarts,
        log: vec![],
        bob: Node::new(dir.path(), "bob", bob_keys.clone(), key, MdkConfig::default()),
        carol: Node::new(dir.path(), "carol", carol_keys.clone(), key, MdkConfig::default()),
    };
    let mut t = 1_700_000_000u64;
    let mut tick = || {
        t += 1;
        t
    };

    // 1. key packages, restart, welcome
    let bob_kp = kp_event(s.bob.m(), &bob_keys);
    let carol_kp = kp_event(s.carol.m(), &carol_keys);
    s.rp();
    let created = alice
        .create_group(
            &alice_keys.public_key(),
            vec![bob_kp.clone(), carol_kp],
            group_config(vec![alice_keys.public_key(), bob_keys.public_key()]),
        )
        .unwrap();
    let gid = created.group.mls_group_id.clone();
    alice.merge_pending_commit(&gid).unwrap();

    let wid_b = EventId::from_slice(&[0xb0; 32]).unwrap();
    let wid_c = EventId::from_slice(&[0xc0; 32]).unwrap();
    let wb = s.bob.m().process_welcome(&wid_b, &created.welcome_rumors[0]).unwrap();
    let wc = s.carol.m().process_welcome(&wid_c, &created.welcome_rumors[1]).unwrap();
    s.note(format!("welcome bob: {:?} {} {:?}", wb.group_name, wb.member_count, wb.state));
    s.rp();
    s.snap("pending welcome", &gid);
    // same welcome delivered again (same wrapper, and under another wrapper) after the restart
    let wb_again = s.bob.m().process_welcome(&wid_b, &created.welcome_rumors[0]).unwrap();
    s.note(format!("welcome again same: {}", wb_again.id == wb.id && wb_again.state == wb.state));
    s.rp();
    let wid_b2 = EventId::from_slice(&[0xb1; 32]).unwrap();
    let wb_again2 = s.bob.m().process_welcome(&wid_b2, &created.welcome_rumors[0]).unwrap();
    s.note(format!("welcome again other wrapper: {:?}", wb_again2.state));
    s.rp();
    let wb_loaded = s.bob.m().get_welcome(&wb.id).unwrap().unwrap();
    s.note(format!("welcome reloaded equal: {}", format!("{wb_loaded:?}") == format!("{wb:?}")));
    s.note(format!(
        "welcome reloaded secrets equal: {}",
        wb_loaded.group_image_key.as_ref().map(|k| hex(&k[..])) == wb.group_image_key.as_ref().map(|k| hex(&k[..]))
            && wb_loaded.group_image_nonce.as_ref().map(|k| hex(&k[..])) == wb.group_image_nonce.as_ref().map(|k| hex(&k[..]))
            && wb_loaded.group_image_hash == wb.group_image_hash
            && wb_loaded.group_relays == wb.group_relays
            && wb_loaded.group_admin_pubkeys == wb.group_admin_pubkeys
            && wb_loaded.event == wb.event
            && wb_loaded.wrapper_event_id == wb.wrapper_event_id
            && wb_loaded.welcomer == wb.welcomer
    ));
    s.bob.m().accept_welcome(&wb_loaded).unwrap();
    s.carol.m().accept_welcome(&wc).unwrap();
    s.rp();
    s.snap("accepted", &gid);
    // the key package is consumed: a second welcome for the same key package must behave the same
    s.rp();

    // 2. bob: post-join self update with restart between create and merge
    let su = s.bob.m().self_update(&gid).unwrap();
    s.rp();
    s.snap("self_update pending", &gid);
    // a second operation while a commit is pending must be refused the same way
    let again = s.bob.m().self_update(&gid).map(|_| ()).map_err(|e| e.to_string());
    s.note(format!("self_update while pending: {again:?}"));
    s.rp();
    s.bob.m().merge_pending_commit(&gid).unwrap();
    s.rp();
    s.note(format!("alice su: {}", snorm(&alice.process_message(&su.evolution_event))));
    let r = s.carol.m().process_message(&su.evolution_event);
    s.note(format!("carol su: {}", snorm(&r)));
    s.rp();
    s.snap("self_update merged", &gid);

    // 3. bob sends (rotated signer must be loadable after restart), own echo after restart
    let m1 = s.bob.m().create_message(&gid, rumor(&bob_keys, "bob-1", tick())).unwrap();
    s.rp();
    s.snap("bob-1 created", &gid);
    let r = s.bob.m().process_message(&m1);
    s.note(format!("bob own echo: {}", snorm(&r)));
    s.rp();
    let r = s.bob.m().process_message(&m1);
    s.note(format!("bob own echo again: {}", snorm(&r)));
    s.note(format!("alice bob-1: {}", snorm(&alice.process_message(&m1))));
    let r = s.carol.m().process_message(&m1);
    s.note(format!("carol bob-1: {}", snorm(&r)));
    s.rp();
    s.snap("bob-1 delivered", &gid);

    // 4. out-of-order application messages around a restart (generations 0..5 of alice)
    let am: Vec<_> = (0..6)
        .map(|i| alice.create_message(&gid, rumor(&alice_keys, &format!("alice-{i}"), tick())).unwrap())
        .collect();
    for i in [3usize, 0, 5, 1, 3, 2, 4, 0] {
        let r = s.bob.m().process_message(&am[i]);
        s.note(format!("bob alice-{i}: {}", snorm(&r)));
        s.rp();
    }
    for i in [5usize, 4, 3, 2, 1, 0] {
        let r = s.carol.m().process_message(&am[i]);
        s.note(format!("carol alice-{i}: {}", snorm(&r)));
        s.rp();
    }
    s.snap("out of order", &gid);

    // 5. bob adds dave: pending commit, restart, merge, restart
    let dave_kp = kp_event(&dave, &dave_keys);
    let add = s.bob.m().add_members(&gid, &[dave_kp]).unwrap();
    s.rp();
    s.snap("add pending", &gid);
    s.bob.m().merge_pending_commit(&gid).unwrap();
    s.rp();
    s.note(format!("alice add: {}", snorm(&alice.process_message(&add.evolution_event))));
    let r = s.carol.m().process_message(&add.evolution_event);
    s.note(format!("carol add: {}", snorm(&r)));
    let dw = dave
        .process_welcome(&EventId::from_slice(&[0xd0; 32]).unwrap(), &add.welcome_rumors.as_ref().unwrap()[0])
        .unwrap();
    dave.accept_welcome(&dw).unwrap();
    s.rp();
    s.snap("add merged", &gid);
    // own commit echo after merge + restart
    let r = s.bob.m().process_message(&add.evolution_event);
    s.note(format!("bob own add echo: {}", snorm(&r)));
    s.rp();

    // 6. bob adds eve, restart, CLEARS the pending commit, restart; then renames
    let eve_kp = kp_event(&eve, &eve_keys);
    let add2 = s.bob.m().add_members(&gid, &[eve_kp.clone()]).unwrap();
    s.rp();
    s.bob.m().clear_pending_commit(&gid).unwrap();
    s.rp();
    s.snap("add cleared", &gid);
    let r = s.bob.m().process_message(&add2.evolution_event);
    s.note(format!("bob echo of cleared commit: {}", snorm(&r)));
    s.rp();
    let upd = s
        .bob
        .m()
        .update_group_data(
            &gid,
            NostrGroupDataUpdate {
                name: Some("renamed".into()),
                description: Some("".into()),
                image_hash: Some(Some([0x11; 32])),
                image_key: Some(Some([0x22; 32])),
                image_nonce: Some(Some([0x33; 12])),
                relays: Some(vec![
                    RelayUrl::parse("wss://z.relay").unwrap(),
                    RelayUrl::parse("wss://a.relay").unwrap(),
                    RelayUrl::parse("wss://m.relay/path").unwrap(),
                ]),
                admins: Some(vec![bob_keys.public_key(), alice_keys.public_key(), dave_keys.public_key()]),
                nostr_group_id: Some([0x44; 32]),
                ..Default::default()
            },
        )
        .unwrap();
    s.rp();
    // self-update staged while another commit is pending: refused identically
    let e = s.bob.m().add_members(&gid, &[eve_kp.clone()]).map(|_| ()).map_err(|e| e.to_string());
    s.note(format!("add while pending: {e:?}"));
    s.rp();
    // own commit arrives from the relay BEFORE merge_pending_commit (OwnCommitPending path)
    let r = s.bob.m().process_message(&upd.evolution_event);
    s.note(format!("bob own rename echo before merge: {}", snorm(&r)));
    s.rp();
    let m = s.bob.m().merge_pending_commit(&gid).map_err(|e| e.to_string());
    s.note(format!("merge after echo: {m:?}"));
    s.rp();
    for (n, r) in [
        ("alice", alice.process_message(&upd.evolution_event)),
        ("dave", dave.process_message(&upd.evolution_event)),
    ] {
        s.note(format!("{n} rename: {}", snorm(&r)));
    }
    let r = s.carol.m().process_message(&upd.evolution_event);
    s.note(format!("carol rename: {}", snorm(&r)));
    s.rp();
    s.snap("renamed", &gid);
    // messages under the rotated nostr group id
    let m2 = s.bob.m().create_message(&gid, rumor(&bob_keys, "bob-2", tick())).unwrap();
    s.rp();
    s.note(format!("alice bob-2: {}", snorm(&alice.process_message(&m2))));
    let r = s.carol.m().process_message(&m2);
    s.note(format!("carol bob-2: {}", snorm(&r)));
    s.rp();

    // 7. carol (not an admin) proposes to leave; bob (admin) auto-commits; restart; merge
    let leave = s.carol.m().leave_group(&gid).unwrap();
    s.rp();
    s.snap("carol proposed leave", &gid);
    let r = s.bob.m().process_message(&leave.evolution_event);
    s.note(format!("bob leave proposal: {}", snorm(&r)));
    let commit = match r {
        Ok(MessageProcessingResult::Proposal(u)) => u.evolution_event,
        other => panic!("expected auto-commit, got {}", snorm(&other)),
    };
    s.rp();
    s.snap("leave auto-commit pending", &gid);
    // duplicate of the proposal after restart
    let r = s.bob.m().process_message(&leave.evolution_event);
    s.note(format!("bob leave proposal dup: {}", snorm(&r)));
    s.rp();
    // dave (admin now) also sees the proposal; alice too - they discard theirs
    for (n, m) in [("alice", &alice), ("dave", &dave)] {
        let r = m.process_message(&leave.evolution_event);
        s.note(format!("{n} leave proposal: {}", snorm(&r)));
        if matches!(r, Ok(MessageProcessingResult::Proposal(_))) {
            m.clear_pending_commit(&gid).unwrap();
        }
    }
    s.bob.m().merge_pending_commit(&gid).unwrap();
    s.rp();
    for (n, m) in [("alice", &alice), ("dave", &dave)] {
        s.note(format!("{n} leave commit: {}", snorm(&m.process_message(&commit))));
    }
    let r = s.carol.m().process_message(&commit);
    s.note(format!("carol leave commit: {}", snorm(&r)));
    s.rp();
    s.snap("carol left", &gid);
    // carol after eviction + restart
    let r = s.carol.m().create_message(&gid, rumor(&carol_keys, "ghost", tick())).map(|_| ()).map_err(|e| e.to_string());
    s.note(format!("carol create after eviction: {r:?}"));
    s.rp();
    let m3 = alice.create_message(&gid, rumor(&alice_keys, "after-carol", tick())).unwrap();
    let r = s.carol.m().process_message(&m3);
    s.note(format!("carol msg after eviction: {}", snorm(&r)));
    let r = s.bob.m().process_message(&m3);
    s.note(format!("bob msg after carol left: {}", snorm(&r)));
    s.rp();

    // 8. carol is re-invited with a fresh key package; restart between every step
    let carol_kp2 = kp_event(s.carol.m(), &carol_keys);
    s.rp();
    let readd = alice.add_members(&gid, &[carol_kp2]).unwrap();
    alice.merge_pending_commit(&gid).unwrap();
    let r = s.bob.m().process_message(&readd.evolution_event);
    s.note(format!("bob re-add: {}", snorm(&r)));
    s.note(format!("dave re-add: {}", snorm(&dave.process_message(&readd.evolution_event))));
    s.rp();
    let wc2 = s
        .carol
        .m()
        .process_welcome(&EventId::from_slice(&[0xc2; 32]).unwrap(), &readd.welcome_rumors.as_ref().unwrap()[0])
        .unwrap();
    s.rp();
    s.snap("carol re-invited", &gid);
    s.carol.m().accept_welcome(&wc2).unwrap();
    s.rp();
    s.snap("carol re-joined", &gid);
    // NOTE (side observation, independent of restarts): carol's own leave proposal of her first
    // membership is still queued after the re-join, so this fails with PendingProposal.
    let m4 = s.carol.m().create_message(&gid, rumor(&carol_keys, "carol-back", tick()));
    s.note(format!("carol-back create: {:?}", m4.as_ref().map(|_| ()).map_err(|e| e.to_string())));
    s.rp();
    if let Ok(m4) = m4 {
        s.note(format!("alice carol-back: {}", snorm(&alice.process_message(&m4))));
        let r = s.bob.m().process_message(&m4);
        s.note(format!("bob carol-back: {}", snorm(&r)));
    }
    s.rp();

    // 9. bob removes dave; restart between create and merge; late message of the previous epoch
    let late = dave.create_message(&gid, rumor(&dave_keys, "dave-late", tick())).unwrap();
    let rm = s.bob.m().remove_members(&gid, &[dave_keys.public_key()]).unwrap();
    s.rp();
    s.snap("remove pending", &gid);
    s.bob.m().merge_pending_commit(&gid).unwrap();
    s.rp();
    s.note(format!("alice rm: {}", snorm(&alice.process_message(&rm.evolution_event))));
    let r = s.carol.m().process_message(&rm.evolution_event);
    s.note(format!("carol rm: {}", snorm(&r)));
    s.rp();
    let r = s.bob.m().process_message(&late);
    s.note(format!("bob late msg of removed member (past epoch): {}", snorm(&r)));
    s.rp();
    let r = s.carol.m().process_message(&late);
    s.note(format!("carol late msg: {}", snorm(&r)));
    s.rp();
    s.snap("dave removed", &gid);

    // 9b. self_update, restart, CLEAR (deletes the eagerly stored new signer), restart,
    //     self_update again, restart, merge; then a message signed with the final signer
    let su1 = s.bob.m().self_update(&gid).unwrap();
    s.rp();
    s.bob.m().clear_pending_commit(&gid).unwrap();
    s.rp();
    s.snap("self_update cleared", &gid);
    let r = s.bob.m().process_message(&su1.evolution_event);
    s.note(format!("bob echo of cleared self_update: {}", snorm(&r)));
    s.rp();
    let m5 = s.bob.m().create_message(&gid, rumor(&bob_keys, "bob-old-signer", tick())).unwrap();
    s.rp();
    s.note(format!("alice bob-old-signer: {}", snorm(&alice.process_message(&m5))));
    let su2 = s.bob.m().self_update(&gid).unwrap();
    s.rp();
    s.bob.m().merge_pending_commit(&gid).unwrap();
    s.rp();
    s.note(format!("alice su2: {}", snorm(&alice.process_message(&su2.evolution_event))));
    let r = s.carol.m().process_message(&su2.evolution_event);
    s.note(format!("carol su2: {}", snorm(&r)));
    s.rp();
    let m6 = s.bob.m().create_message(&gid, rumor(&bob_keys, "bob-new-signer", tick())).unwrap();
    s.rp();
    s.note(format!("alice bob-new-signer: {}", snorm(&alice.process_message(&m6))));
    let r = s.carol.m().process_message(&m6);
    s.note(format!("carol bob-new-signer: {}", snorm(&r)));
    s.rp();

    // 9c. bob holds a pending commit of his own, restarts, and alice's commit for the same
    //     epoch arrives; afterwards bob tries to merge / clear his stale pending commit.
    //     Alice's commit is created more than a second earlier, so it deterministically beats
    //     bob's under MIP-03 (no coin flip on event ids, no rollback wanted in either run).
    let alices = alice
        .update_group_data(&gid, NostrGroupDataUpdate { name: Some("alice-wins".into()), ..Default::default() })
        .unwrap();
    alice.merge_pending_commit(&gid).unwrap();
    std::thread::sleep(std::time::Duration::from_millis(1100));
    let bobs = s
        .bob
        .m()
        .update_group_data(&gid, NostrGroupDataUpdate { name: Some("bob-wants".into()), ..Default::default() })
        .unwrap();
    assert!(alices.evolution_event.created_at < bobs.evolution_event.created_at);
    s.rp();
    let r = s.bob.m().process_message(&alices.evolution_event);
    s.note(format!("bob (own commit pending) on alice's commit: {}", snorm(&r)));
    s.rp();
    s.snap("foreign commit over own pending", &gid);
    let r = s.bob.m().merge_pending_commit(&gid).map_err(|e| e.to_string());
    s.note(format!("bob merge of stale pending: {r:?}"));
    s.rp();
    let r = s.bob.m().clear_pending_commit(&gid).map_err(|e| e.to_string());
    s.note(format!("bob clear of stale pending: {r:?}"));
    s.rp();
    let r = s.bob.m().process_message(&bobs.evolution_event);
    s.note(format!("bob echo of his lost commit: {}", snorm(&r)));
    s.rp();
    let r = s.carol.m().process_message(&alices.evolution_event);
    s.note(format!("carol alice-wins: {}", snorm(&r)));
    s.rp();
    let r = s.carol.m().process_message(&bobs.evolution_event);
    s.note(format!("carol bob's lost commit: {}", snorm(&r)));
    s.rp();
    let r = s.carol.m().process_message(&bobs.evolution_event);
    s.note(format!("carol bob's lost commit again: {}", snorm(&r)));
    s.rp();
    s.snap("after lost commit", &gid);

    // 9d. failures are remembered: an event for an unknown group, and a welcome whose key
    //     package this client does not hold
    let stranger: Mem = MDK::new(MdkMemoryStorage::default());
    let stranger_keys = fixed_keys(9);
    let sg = stranger
        .create_group(&stranger_keys.public_key(), vec![], group_config(vec![stranger_keys.public_key()]))
        .unwrap();
    stranger.merge_pending_commit(&sg.group.mls_group_id).unwrap();
    let foreign = stranger
        .create_message(&sg.group.mls_group_id, rumor(&stranger_keys, "not for you", tick()))
        .unwrap();
    let r = s.bob.m().process_message(&foreign);
    s.note(format!("bob foreign event: {}", snorm(&r)));
    s.rp();
    let r = s.bob.m().process_message(&foreign);
    s.note(format!("bob foreign event again: {}", snorm(&r)));
    s.rp();
    let other_bob: Mem = MDK::new(MdkMemoryStorage::default());
    let g3 = alice
        .create_group(
            &alice_keys.public_key(),
            vec![kp_event(&other_bob, &bob_keys)],
            group_config(vec![alice_keys.public_key()]),
        )
        .unwrap();
    alice.merge_pending_commit(&g3.group.mls_group_id).unwrap();
    let wid3 = EventId::from_slice(&[0xb7; 32]).unwrap();
    let r = s.bob.m().process_welcome(&wid3, &g3.welcome_rumors[0]).map(|w| w.state).map_err(|e| e.to_string());
    s.note(format!("bob welcome without key package: {r:?}"));
    s.rp();
    let r = s.bob.m().process_welcome(&wid3, &g3.welcome_rumors[0]).map(|w| w.state).map_err(|e| e.to_string());
    s.note(format!("bob welcome without key package again: {r:?}"));
    s.rp();

    // 10. a second welcome is declined after a restart
    let g2 = alice
        .create_group(
            &alice_keys.public_key(),
            vec![kp_event(s.bob.m(), &bob_keys)],
            group_config(vec![alice_keys.public_key()]),
        )
        .unwrap();
    alice.merge_pending_commit(&g2.group.mls_group_id).unwrap();
    s.rp();
    let w2 = s
        .bob
        .m()
        .process_welcome(&EventId::from_slice(&[0xb9; 32]).unwrap(), &g2.welcome_rumors[0])
        .unwrap();
    s.rp();
    s.snap("second group invited", &g2.group.mls_group_id);
    s.bob.m().decline_welcome(&w2).unwrap();
    s.rp();
    s.snap("second group declined", &g2.group.mls_group_id);
    s.snap("final", &gid);
    s.note(format!("bob groups: {}", s.bob.m().get_groups().unwrap().len()));

    s.log
}

fn compare(key: Option<[u8; 32]>) {
    let a = script(false, key);
    let b = script(true, key);
    for l in &a {
        eprintln!("{l}");
    }
    assert_same("script", &a, &b);
}

#[test]
fn own_operations_with_restart_between_every_call_unencrypted() {
    compare(None);
}

#[test]
fn own_operations_with_restart_between_every_call_encrypted() {
    compare(Some([0x77; 32]));
}

/// Commit race resolved by rollback, with the node's own message on the losing branch, and
/// restarts everywhere except between applying the losing commit and receiving the winner (that
/// position is the KNOWN weakness: hydrated snapshots carry applied_commit_ts = 0).
/// Covers: restart between rollback and the re-delivery of invalidated / retryable messages,
/// including the node's own message created on the losing branch.
fn rollback_script(restarts: bool) -> Vec<String> {
    let dir = tempfile::tempdir().unwrap();
    let alice_keys = fixed_keys(1);
    let bob_keys = fixed_keys(2);
    let carol_keys = fixed_keys(3);
    let alice: Mem = MDK::new(MdkMemoryStorage::default());
    let mut s = Script {
        restarts,
        log: vec![],
        bob: Node::new(dir.path(), "bob", bob_keys.clone(), None, MdkConfig::default()),
        carol: Node::new(dir.path(), "carol", carol_keys.clone(), None, MdkConfig::default()),
    };
    let mut t = 1_700_000_000u64;
    let mut tick = || {
        t += 1;
        t
    };
    let bob_kp = kp_event(s.bob.m(), &bob_keys);
    let carol_kp = kp_event(s.carol.m(), &carol_keys);
    let created = alice
        .create_group(
            &alice_keys.public_key(),
            vec![bob_kp, carol_kp],
            group_config(vec![alice_keys.public_key(), carol_keys.public_key()]),
        )
        .unwrap();
    let gid = created.group.mls_group_id.clone();
    alice.merge_pending_commit(&gid).unwrap();
    let wb = s
        .bob
        .m()
        .process_welcome(&EventId::from_slice(&[0xb0; 32]).unwrap(), &created.welcome_rumors[0])
        .unwrap();
    s.bob.m().accept_welcome(&wb).unwrap();
    let wc = s
        .carol
        .m()
        .process_welcome(&EventId::from_slice(&[0xc0; 32]).unwrap(), &created.welcome_rumors[1])
        .unwrap();
    s.carol.m().accept_welcome(&wc).unwrap();
    s.rp();

    for round in 0..3 {
        // a few epochs of ordinary history first, so that older (hydrated) snapshots exist
        let pre = alice
            .update_group_data(&gid, NostrGroupDataUpdate { description: Some(format!("pre-{round}")), ..Default::default() })
            .unwrap();
        alice.merge_pending_commit(&gid).unwrap();
        let r = s.bob.m().process_message(&pre.evolution_event);
        s.note(format!("[{round}] bob pre: {}", snorm(&r)));
        let r = s.carol.m().process_message(&pre.evolution_event);
        s.note(format!("[{round}] carol pre: {}", snorm(&r)));
        s.rp();

        // the race: alice's commit A is older by more than a second => A wins under MIP-03
        let a = alice
            .update_group_data(&gid, NostrGroupDataUpdate { name: Some(format!("A-{round}")), ..Default::default() })
            .unwrap();
        alice.merge_pending_commit(&gid).unwrap();
        let ma = alice.create_message(&gid, rumor(&alice_keys, &format!("on-A-{round}"), tick())).unwrap();
        std::thread::sleep(std::time::Duration::from_millis(1100));
        let c = s.carol.m().self_update(&gid).unwrap();
        s.rp();
        // carol keeps C pending (an author that merges a losing commit through
        // merge_pending_commit has no epoch snapshot and can never adopt the winner - that is
        // independent of restarts and would only degrade the rest of this script)

        // bob sees the loser first -- NO restart of bob from here until A is applied
        let r = s.bob.m().process_message(&c.evolution_event);
        s.note(format!("[{round}] bob C (loser): {}", snorm(&r)));
        let mb = s.bob.m().create_message(&gid, rumor(&bob_keys, &format!("bob-on-C-{round}"), tick())).unwrap();
        let r = s.bob.m().process_message(&ma);
        s.note(format!("[{round}] bob msg on A before A: {}", snorm(&r)));
        let r = s.bob.m().process_message(&a.evolution_event);
        s.note(format!("[{round}] bob A (winner, rollback): {}", snorm(&r)));
        s.snap(&format!("{round} rolled back, before restart"), &gid);
        let cb = s.bob.recorder.0.lock().unwrap().clone();
        s.note(format!("[{round}] bob rollback callbacks so far: {cb:?}"));
        s.carol.m().clear_pending_commit(&gid).unwrap();
        s.rp();
        let r = s.carol.m().process_message(&a.evolution_event);
        s.note(format!("[{round}] carol A: {}", snorm(&r)));
        s.rp();
        s.snap(&format!("{round} rolled back, after restart"), &gid);

        // re-deliveries after the restart
        let r = s.bob.m().process_message(&ma);
        s.note(format!("[{round}] bob msg on A retried: {}", snorm(&r)));
        s.rp();
        let r = s.bob.m().process_message(&mb);
        s.note(format!("[{round}] bob own msg of losing branch echo: {}", snorm(&r)));
        s.rp();
        let r = s.bob.m().process_message(&c.evolution_event);
        s.note(format!("[{round}] bob C again: {}", snorm(&r)));
        s.rp();
        let r = s.bob.m().process_message(&a.evolution_event);
        s.note(format!("[{round}] bob A again: {}", snorm(&r)));
        s.rp();
        let r = s.carol.m().process_message(&ma);
        s.note(format!("[{round}] carol msg on A: {}", snorm(&r)));
        s.rp();
        s.snap(&format!("{round} settled"), &gid);

        // and the group still works
        let mb2 = s.bob.m().create_message(&gid, rumor(&bob_keys, &format!("bob-after-{round}"), tick())).unwrap();
        s.rp();
        s.note(format!("[{round}] alice bob-after: {}", snorm(&alice.process_message(&mb2))));
        let r = s.carol.m().process_message(&mb2);
        s.note(format!("[{round}] carol bob-after: {}", snorm(&r)));
        s.rp();
    }
    s.snap("final", &gid);
    s.log
}

#[test]
fn rollback_with_own_message_on_losing_branch_then_restarts() {
    let a = rollback_script(false);
    let b = rollback_script(true);
    for l in &a {
        if !l.starts_with("[") || l.starts_with("[0]") || l.starts_with("[1]") || l.starts_with("[2]") {
            eprintln!("{l}");
        }
    }
    assert_same("rollback script", &a, &b);
}


/// The group CREATOR on SQLite with a restart between every two calls, and one key package of
/// the invitee used for two invitations (last-resort key package), the second processed after
/// restarts.
fn creator_script(restarts: bool) -> Vec<String> {
    let dir = tempfile::tempdir().unwrap();
    let alice_keys = fixed_keys(1);
    let bob_keys = fixed_keys(2);
    let carol_keys = fixed_keys(3);
    let mut s = Script {
        restarts,
        log: vec![],
        // "bob" slot = the creator alice, "carol" slot = the invitee bob (both on SQLite)
        bob: Node::new(dir.path(), "alice", alice_keys.clone(), None, MdkConfig::default()),
        carol: Node::new(dir.path(), "bob", bob_keys.clone(), None, MdkConfig::default()),
    };
    let carol: Mem = MDK::new(MdkMemoryStorage::default());
    let mut t = 1_700_000_000u64;
    let mut tick = || {
        t += 1;
        t
    };
    let bob_kp = kp_event(s.carol.m(), &bob_keys);
    s.rp();
    let created = s
        .bob
        .m()
        .create_group(
            &alice_keys.public_key(),
            vec![bob_kp.clone()],
            group_config(vec![alice_keys.public_key()]),
        )
        .unwrap();
    let gid = created.group.mls_group_id.clone();
    s.rp();
    s.snap("created, not merged", &gid);
    s.bob.m().merge_pending_commit(&gid).unwrap();
    s.rp();
    s.snap("created, merged", &gid);
    let w = s
        .carol
        .m()
        .process_welcome(&EventId::from_slice(&[0xb0; 32]).unwrap(), &created.welcome_rumors[0])
        .unwrap();
    s.rp();
    s.carol.m().accept_welcome(&w).unwrap();
    s.rp();
    let m = s.bob.m().create_message(&gid, rumor(&alice_keys, "hello", tick())).unwrap();
    s.rp();
    let r = s.carol.m().process_message(&m);
    s.note(format!("bob hello: {}", snorm(&r)));
    s.rp();

    // a second group, created with the SAME key package event of bob
    let created2 = s
        .bob
        .m()
        .create_group(
            &alice_keys.public_key(),
            vec![bob_kp.clone()],
            group_config(vec![alice_keys.public_key()]),
        )
        .map_err(|e| e.to_string());
    s.note(format!("second group with the same key package: {:?}", created2.as_ref().map(|_| ())));
    s.rp();
    if let Ok(created2) = created2 {
        let gid2 = created2.group.mls_group_id.clone();
        s.bob.m().merge_pending_commit(&gid2).unwrap();
        s.rp();
        let w2 = s
            .carol
            .m()
            .process_welcome(&EventId::from_slice(&[0xb1; 32]).unwrap(), &created2.welcome_rumors[0])
            .map_err(|e| e.to_string());
        s.note(format!("second welcome with the same key package: {:?}", w2.as_ref().map(|w| w.state)));
        s.rp();
        if let Ok(w2) = w2 {
            let r = s.carol.m().accept_welcome(&w2).map_err(|e| e.to_string());
            s.note(format!("accept second: {r:?}"));
            s.rp();
            let m = s.bob.m().create_message(&gid2, rumor(&alice_keys, "hello-2", tick())).unwrap();
            s.rp();
            let r = s.carol.m().process_message(&m);
            s.note(format!("bob hello-2: {}", snorm(&r)));
            s.rp();
            s.snap("second group", &gid2);
        }
    }

    // creator adds carol, restart, merges; carol joins; three-party traffic
    let ckp = kp_event(&carol, &carol_keys);
    let add = s.bob.m().add_members(&gid, &[ckp]).unwrap();
    s.rp();
    s.bob.m().merge_pending_commit(&gid).unwrap();
    s.rp();
    let r = s.carol.m().process_message(&add.evolution_event);
    s.note(format!("bob add carol: {}", snorm(&r)));
    s.rp();
    let cw = carol
        .process_welcome(&EventId::from_slice(&[0xc0; 32]).unwrap(), &add.welcome_rumors.as_ref().unwrap()[0])
        .unwrap();
    carol.accept_welcome(&cw).unwrap();
    let m = carol.create_message(&gid, rumor(&carol_keys, "carol-hi", tick())).unwrap();
    let r = s.bob.m().process_message(&m);
    s.note(format!("alice carol-hi: {}", snorm(&r)));
    s.rp();
    let r = s.carol.m().process_message(&m);
    s.note(format!("bob carol-hi: {}", snorm(&r)));
    s.rp();
    s.snap("final", &gid);
    s.log
}

#[test]
fn creator_on_sqlite_and_key_package_reuse_with_restarts() {
    let a = creator_script(false);
    let b = creator_script(true);
    for l in &a {
        if !l.starts_with("[") {
            eprintln!("{l}");
        }
    }
    assert_same("creator script", &a, &b);
}
