//! R01 / H1: a leave proposal that reaches a bystander while it sits on the losing branch of a
//! commit race is refused and blocked for good; the winning commit (which commits that
//! proposal) can then never be applied by the bystander.
//!
//! Group: alice (admin), bob (admin), carol (member, leaves), dave (member, bystander).
//! Epoch n:
//!   P  = carol.leave_group()                       (proposal, epoch n)
//!   L  = alice.process_message(P) -> auto-commit    (commit on epoch n, earlier timestamp: WINNER)
//!   A2 = bob.update_group_data(name)                (commit on epoch n, later timestamp: loser;
//!                                                    bob had not seen P)
//! dave receives A2, P, L (a reordering of what the relay holds), then everything again and
//! again. The property demands that alice, bob and dave end on L's state (carol removed).

mod r01_common;
use r01_common::*;

use mdk_core::MdkConfig;
use mdk_core::prelude::*;

#[test]
fn leave_proposal_seen_on_losing_branch_blocks_winner() {
    run::<mdk_memory_storage::MdkMemoryStorage>();
}

#[test]
fn leave_proposal_seen_on_losing_branch_blocks_winner_sqlite() {
    run::<mdk_sqlite_storage::MdkSqliteStorage>();
}

fn run<S: Mk>() {
    let (m, gid) = setup::<S>(4, &[0, 1], MdkConfig::default());
    let (alice, bob, carol, dave) = (&m[0], &m[1], &m[2], &m[3]);
    let s0 = state(dave, &gid);
    println!("start: {}", short(&s0));

    // carol leaves
    let p = carol.mdk.leave_group(&gid).expect("leave").evolution_event;

    // alice (admin) sees P and auto-commits it
    let l = match offer(alice, "P", &p).expect("alice processes P") {
        MessageProcessingResult::Proposal(r) => r.evolution_event,
        other => panic!("alice should auto-commit, got {other:?}"),
    };

    // bob (admin) has not seen P and renames the group one second later
    sleep_next_second();
    let a2 = bob
        .mdk
        .update_group_data(&gid, NostrGroupDataUpdate::new().name("renamed by bob"))
        .expect("bob update")
        .evolution_event;

    assert!(
        (l.created_at.as_secs(), l.id.to_hex()) < (a2.created_at.as_secs(), a2.id.to_hex()),
        "L must be the MIP-03 winner"
    );

    // dave: A2 (loser) first, then P, then L (winner)
    println!("dave, first pass:");
    let _ = offer(dave, "A2", &a2);
    let _ = offer(dave, "P", &p);
    let _ = offer(dave, "L", &l);
    println!("dave rollbacks: {:?}", dave.cb.rollbacks.lock().unwrap());

    // alice and bob: relay order P, L, A2 (both wait for the relay echo of their own commit)
    println!("alice/bob:");
    let evs = [("P", &p), ("L", &l), ("A2", &a2)];
    fixpoint(&[alice, bob], &gid, &evs);

    // everybody is offered everything until nothing changes
    println!("fixpoint for all remaining members:");
    fixpoint(&[alice, bob, dave], &gid, &evs);
    fixpoint(&[alice, bob, dave], &gid, &[("A2", &a2), ("L", &l), ("P", &p)]);

    let sa = state(alice, &gid);
    let sb = state(bob, &gid);
    let sd = state(dave, &gid);
    println!("alice: {}", short(&sa));
    println!("bob  : {}", short(&sb));
    println!("dave : {}", short(&sd));

    // The selected state: L applied -> epoch n+1, carol gone, name unchanged.
    assert_eq!(sa.epoch, s0.epoch + 1);
    assert!(!sa.members.contains(&carol.keys.public_key()), "alice: carol removed");
    assert_eq!(sa, sb, "alice and bob agree");
    assert_eq!(
        sa, sd,
        "C01 violated: dave does not hold the MIP-03-selected state (winner L)"
    );
}
