//! R01 / H13: two admins add the same newcomer on the same epoch (same published key package).
//! The newcomer receives two invitations: one of the winning commit, one of the losing commit.

mod r01_common;
use r01_common::*;

use mdk_core::MdkConfig;
use mdk_core::prelude::*;
use mdk_memory_storage::MdkMemoryStorage;
use nostr::EventId;

fn run(winner_first: bool) -> (State, State) {
    let (m, gid) = setup::<MdkMemoryStorage>(3, &[0, 1], MdkConfig::default());
    let (alice, bob, carol) = (&m[0], &m[1], &m[2]);
    let nina = new_member::<MdkMemoryStorage>("nina", MdkConfig::default());
    let kp = key_package_event(&nina);

    let a1 = alice.mdk.add_members(&gid, std::slice::from_ref(&kp)).unwrap();
    sleep_next_second();
    let a2 = bob.mdk.add_members(&gid, std::slice::from_ref(&kp)).unwrap();
    let (e1, e2) = (&a1.evolution_event, &a2.evolution_event);
    assert!(e1.created_at < e2.created_at);

    // alice, carol: relay order; bob: own echo first, then the winner
    offer(alice, "A1", e1).unwrap();
    offer(carol, "A1", e1).unwrap();
    offer(bob, "A2", e2).unwrap();
    offer(bob, "A1", e1).unwrap();

    let w1 = &a1.welcome_rumors.as_ref().unwrap()[0];
    let w2 = &a2.welcome_rumors.as_ref().unwrap()[0];
    let id1 = EventId::from_slice(&[1u8; 32]).unwrap();
    let id2 = EventId::from_slice(&[2u8; 32]).unwrap();
    let order = if winner_first {
        [(id1, w1, "W1"), (id2, w2, "W2")]
    } else {
        [(id2, w2, "W2"), (id1, w1, "W1")]
    };
    for (id, w, label) in order {
        match nina.mdk.process_welcome(&id, w) {
            Ok(welcome) => {
                let r = nina.mdk.accept_welcome(&welcome);
                println!("  nina accepts {label}: {:?}", r.is_ok());
            }
            Err(e) => println!("  nina process_welcome {label}: Err({e})"),
        }
    }
    let evs = [("A1", e1), ("A2", e2)];
    fixpoint(&[alice, bob, carol, &nina], &gid, &evs);
    let sa = state(alice, &gid);
    let sn = state(&nina, &gid);
    println!("alice: {}", short(&sa));
    println!("bob  : {}", short(&state(bob, &gid)));
    println!("nina : {}", short(&sn));
    println!("alice->nina readable: {}", can_talk(alice, &nina, &gid));
    (sa, sn)
}

#[test]
fn loser_invitation_first() {
    let (sa, sn) = run(false);
    assert_eq!(sa, sn);
}

#[test]
fn winner_invitation_first() {
    let (sa, sn) = run(true);
    assert_eq!(sa, sn, "nina ends on the losing commit's state");
}
