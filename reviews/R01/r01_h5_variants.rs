//! R01: variants around H1 (controls) and H12 (group events seen before the invitation is
//! accepted).

mod r01_common;
use r01_common::*;

use mdk_core::MdkConfig;
use mdk_core::prelude::*;
use nostr::{Event, EventId};

struct Race<S: Mk> {
    m: Vec<Member<S>>,
    gid: GroupId,
    p: Event,
    l: Event,
    a2: Event,
}

/// carol leaves (P), alice auto-commits (L, winner), bob renames one second later (A2, loser).
fn leave_race<S: Mk>(dave_admin: bool) -> Race<S> {
    let admins: Vec<usize> = if dave_admin { vec![0, 1, 3] } else { vec![0, 1] };
    let (m, gid) = setup::<S>(4, &admins, MdkConfig::default());
    let p = m[2].mdk.leave_group(&gid).expect("leave").evolution_event;
    let l = match offer(&m[0], "P", &p).expect("alice processes P") {
        MessageProcessingResult::Proposal(r) => r.evolution_event,
        other => panic!("alice should auto-commit, got {other:?}"),
    };
    sleep_next_second();
    let a2 = m[1]
        .mdk
        .update_group_data(&gid, NostrGroupDataUpdate::new().name("renamed by bob"))
        .expect("bob update")
        .evolution_event;
    Race { m, gid, p, l, a2 }
}

fn finish<S: Mk>(r: &Race<S>) -> (State, State) {
    let evs = [("P", &r.p), ("L", &r.l), ("A2", &r.a2)];
    fixpoint(&[&r.m[0], &r.m[1]], &r.gid, &evs);
    fixpoint(&[&r.m[0], &r.m[1], &r.m[3]], &r.gid, &evs);
    let sa = state(&r.m[0], &r.gid);
    let sd = state(&r.m[3], &r.gid);
    println!("alice: {}", short(&sa));
    println!("bob  : {}", short(&state(&r.m[1], &r.gid)));
    println!("dave : {}", short(&sd));
    (sa, sd)
}

/// Control: the proposal reaches dave while he is still on epoch n -> converges.
#[test]
fn control_p_then_loser_then_winner() {
    control_p_then_loser_then_winner_on::<mdk_memory_storage::MdkMemoryStorage>();
}
#[test]
fn control_p_then_loser_then_winner_sqlite() {
    control_p_then_loser_then_winner_on::<mdk_sqlite_storage::MdkSqliteStorage>();
}
fn control_p_then_loser_then_winner_on<S: Mk>() {
    let r = leave_race::<S>(false);
    let dave = &r.m[3];
    let _ = offer(dave, "P", &r.p);
    let _ = offer(dave, "A2", &r.a2);
    let _ = offer(dave, "L", &r.l);
    let (sa, sd) = finish(&r);
    assert_eq!(sa, sd);
}

/// Control: relay order P, L, A2 -> converges.
#[test]
fn control_relay_order() {
    let r = leave_race::<mdk_memory_storage::MdkMemoryStorage>(false);
    let dave = &r.m[3];
    let _ = offer(dave, "P", &r.p);
    let _ = offer(dave, "L", &r.l);
    let _ = offer(dave, "A2", &r.a2);
    let (sa, sd) = finish(&r);
    assert_eq!(sa, sd);
}

/// H1 with an admin bystander: A2, P, L.
#[test]
fn h1_admin_bystander() {
    let r = leave_race::<mdk_memory_storage::MdkMemoryStorage>(true);
    let dave = &r.m[3];
    let _ = offer(dave, "A2", &r.a2);
    let _ = offer(dave, "P", &r.p);
    let _ = offer(dave, "L", &r.l);
    let (sa, sd) = finish(&r);
    assert_eq!(sa, sd, "C01 violated (admin bystander)");
}

/// H1, two deep: A2, child of A2, P, L.
#[test]
fn h1_two_deep() {
    let r = leave_race::<mdk_memory_storage::MdkMemoryStorage>(false);
    let (bob, dave) = (&r.m[1], &r.m[3]);
    let _ = offer(bob, "A2", &r.a2);
    let b2 = bob
        .mdk
        .update_group_data(&r.gid, NostrGroupDataUpdate::new().name("B2"))
        .unwrap()
        .evolution_event;
    let _ = offer(bob, "B2", &b2);
    let _ = offer(dave, "A2", &r.a2);
    let _ = offer(dave, "B2", &b2);
    let _ = offer(dave, "P", &r.p);
    let _ = offer(dave, "L", &r.l);
    let (sa, sd) = finish(&r);
    assert_eq!(sa, sd, "C01 violated (two deep)");
}

/// H12: erin is invited by commit A (epoch n -> n+1); the next commit B (n+1 -> n+2) reaches
/// erin after she has processed the invitation but before she accepts it.
#[test]
fn h12_group_event_before_accepting_invitation() {
    let (m, gid) = setup::<mdk_memory_storage::MdkMemoryStorage>(2, &[0, 1], MdkConfig::default());
    let (alice, bob) = (&m[0], &m[1]);
    let erin = new_member::<mdk_memory_storage::MdkMemoryStorage>("erin", MdkConfig::default());
    let kp = key_package_event(&erin);
    let add = alice.mdk.add_members(&gid, &[kp]).unwrap();
    alice.mdk.process_message(&add.evolution_event).unwrap();
    offer(bob, "A", &add.evolution_event).unwrap();
    let b = alice
        .mdk
        .update_group_data(&gid, NostrGroupDataUpdate::new().name("B"))
        .unwrap()
        .evolution_event;
    alice.mdk.process_message(&b).unwrap();
    offer(bob, "B", &b).unwrap();

    let w = erin
        .mdk
        .process_welcome(&EventId::all_zeros(), &add.welcome_rumors.as_ref().unwrap()[0])
        .unwrap();
    let _ = offer(&erin, "B", &b); // before accepting
    erin.mdk.accept_welcome(&w).unwrap();
    for _ in 0..3 {
        let _ = offer(&erin, "B", &b);
    }
    let sa = state(alice, &gid);
    let se = state(&erin, &gid);
    println!("alice: {}", short(&sa));
    println!("erin : {}", short(&se));
    assert_eq!(sa, se, "erin never catches up with commit B");
}
