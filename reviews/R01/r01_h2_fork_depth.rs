//! R01 / H2 + H9: forks of depth k, k <= configured snapshot retention.
//!
//! alice, bob: admins; dave: bystander. Fork at epoch n: A1 (alice, earlier => winner) and
//! A2 (bob, later => loser). bob then stacks k-1 more commits on A2, alice k-1 more on A1.
//! dave first sees bob's whole branch (k commits deep), then alice's branch.

mod r01_common;
use r01_common::*;

use mdk_core::MdkConfig;
use mdk_core::prelude::*;
use nostr::Event;

fn rename(m: &Member, gid: &GroupId, name: &str) -> Event {
    let ev = m
        .mdk
        .update_group_data(gid, NostrGroupDataUpdate::new().name(name))
        .expect("update")
        .evolution_event;
    // apply on echo
    m.mdk.process_message(&ev).expect("own echo");
    ev
}

fn run(config: MdkConfig, k: usize) -> (State, State) {
    let (m, gid) = setup::<mdk_memory_storage::MdkMemoryStorage>(3, &[0, 1], config);
    let (alice, bob, dave) = (&m[0], &m[1], &m[2]);

    let mut win: Vec<Event> = Vec::new();
    let mut lose: Vec<Event> = Vec::new();
    win.push(rename(alice, &gid, "A1"));
    sleep_next_second();
    lose.push(rename(bob, &gid, "A2"));
    for i in 1..k {
        win.push(rename(alice, &gid, &format!("win-{i}")));
        lose.push(rename(bob, &gid, &format!("lose-{i}")));
    }
    assert!(win[0].created_at < lose[0].created_at);

    println!("dave follows the losing branch ({k} deep)");
    for (i, ev) in lose.iter().enumerate() {
        offer(dave, &format!("lose[{i}]"), ev).expect("dave applies losing branch");
    }
    println!("dave: {}", short(&state(dave, &gid)));

    println!("dave is offered the winning branch, repeatedly");
    let mut all: Vec<(String, &Event)> = Vec::new();
    for (i, ev) in win.iter().enumerate() {
        all.push((format!("win[{i}]"), ev));
    }
    for (i, ev) in lose.iter().enumerate() {
        all.push((format!("lose[{i}]"), ev));
    }
    let all_ref: Vec<(&str, &Event)> = all.iter().map(|(l, e)| (l.as_str(), *e)).collect();
    fixpoint(&[dave, bob], &gid, &all_ref);
    println!("dave rollbacks: {}", dave.cb.rollbacks.lock().unwrap().len());

    let sa = state(alice, &gid);
    let sd = state(dave, &gid);
    let sb = state(bob, &gid);
    println!("alice: {}", short(&sa));
    println!("bob  : {}", short(&sb));
    println!("dave : {}", short(&sd));
    (sa, sd)
}

/// Control: depth 2 with defaults.
#[test]
fn depth_2_default() {
    let (sa, sd) = run(MdkConfig::default(), 2);
    assert_eq!(sa, sd);
}

/// H9: depth exactly = retention (5) with defaults.
#[test]
fn depth_5_default_retention_5() {
    let (sa, sd) = run(MdkConfig::default(), 5);
    assert_eq!(sa, sd, "fork of depth 5 with retention 5 must converge");
}

/// H2: retention configured to 7, fork of depth 6 (within retention).
#[test]
fn depth_6_retention_7() {
    let cfg = MdkConfig {
        epoch_snapshot_retention: 7,
        ..MdkConfig::default()
    };
    let (sa, sd) = run(cfg, 6);
    assert_eq!(
        sa, sd,
        "C01 violated: fork of depth 6 with retention 7 does not converge"
    );
}

/// Control for H2: same but the past-epoch window is raised as well.
#[test]
fn depth_6_retention_7_window_7() {
    let cfg = MdkConfig {
        epoch_snapshot_retention: 7,
        max_past_epochs: 7,
        ..MdkConfig::default()
    };
    let (sa, sd) = run(cfg, 6);
    assert_eq!(sa, sd);
}
