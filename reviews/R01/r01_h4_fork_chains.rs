//! R01 / H3 + H6: a fork at epoch n followed by forks at n+1 on both branches; members saw
//! different branches; the author of the winner at n follows the losing branch (two deep) before
//! its own echo arrives.

mod r01_common;
use r01_common::*;

use mdk_core::MdkConfig;
use mdk_core::prelude::*;
use nostr::Event;

fn rename<S: Mk>(m: &Member<S>, gid: &GroupId, name: &str) -> Event {
    m.mdk
        .update_group_data(gid, NostrGroupDataUpdate::new().name(name))
        .expect("update")
        .evolution_event
}

fn scenario<S: Mk>(variant: usize) {
    println!("##### variant {variant}");
    // alice, bob, carol admins; dave, erin members
    let (m, gid) = setup::<S>(5, &[0, 1, 2], MdkConfig::default());
    let (alice, bob, carol, dave, erin) = (&m[0], &m[1], &m[2], &m[3], &m[4]);

    // epoch n
    let a1 = rename(alice, &gid, "A1"); // alice waits for the echo
    sleep_next_second();
    let a2 = rename(bob, &gid, "A2");
    offer(bob, "A2", &a2).unwrap(); // bob's echo
    offer(dave, "A2", &a2).unwrap(); // dave on the losing branch
    offer(alice, "A2", &a2).unwrap(); // alice too, own A1 still pending
    offer(carol, "A1", &a1).unwrap(); // carol, erin on the winning branch
    offer(erin, "A1", &a1).unwrap();

    // epoch n+1, losing branch: B2 by bob, B2x by dave (self-update, non admin)
    sleep_next_second();
    let b2x = dave.mdk.self_update(&gid).unwrap().evolution_event;
    sleep_next_second();
    let b2 = rename(bob, &gid, "B2");
    offer(bob, "B2", &b2).unwrap();
    offer(alice, "B2", &b2).unwrap(); // alice: two deep on the losing branch
    offer(dave, "B2x", &b2x).unwrap(); // dave applies own (earlier => better on that branch)

    // epoch n+1, winning branch: B1 by carol (earlier), B1x by erin (self-update, later)
    let b1 = rename(carol, &gid, "B1");
    sleep_next_second();
    let b1x = erin.mdk.self_update(&gid).unwrap().evolution_event;
    offer(erin, "B1x", &b1x).unwrap(); // erin applies the worse one first
    offer(carol, "B1", &b1).unwrap();

    // epoch n+2 on the winning branch: C1 by carol
    let c1 = rename(carol, &gid, "C1");
    offer(carol, "C1", &c1).unwrap();

    let w: Vec<(&str, &Event)> = vec![("A1", &a1), ("B1", &b1), ("B1x", &b1x), ("C1", &c1)];
    let l: Vec<(&str, &Event)> = vec![("A2", &a2), ("B2x", &b2x), ("B2", &b2)];
    let order: Vec<(&str, &Event)> = match variant {
        0 => w.iter().chain(l.iter()).cloned().collect(),
        1 => l.iter().chain(w.iter()).cloned().collect(),
        // children of the winner before the winner itself (members on the losing branch
        // record them as failed, the rollback re-opens them)
        2 => vec![
            ("A2", &a2),
            ("B2", &b2),
            ("B2x", &b2x),
            ("A1", &a1),
            ("B1x", &b1x),
            ("B1", &b1),
            ("C1", &c1),
        ],
        _ => vec![
            ("B2", &b2),
            ("A1", &a1),
            ("B2x", &b2x),
            ("B1x", &b1x),
            ("A2", &a2),
            ("B1", &b1),
            ("C1", &c1),
        ],
    };
    let everyone: Vec<&Member<S>> = m.iter().collect();
    fixpoint(&everyone, &gid, &order);
    // and once more in plain causal order so that nothing fails for "before predecessor"
    let causal: Vec<(&str, &Event)> = w.iter().chain(l.iter()).cloned().collect();
    fixpoint(&everyone, &gid, &causal);

    let reference = state(carol, &gid);
    println!("carol: {}", short(&reference));
    assert_eq!(reference.name, "C1");
    for mem in &everyone {
        let s = state(mem, &gid);
        println!("{:<6}: {} rollbacks={}", mem.name, short(&s), mem.cb.rollbacks.lock().unwrap().len());
    }
    for mem in &everyone {
        assert_eq!(reference, state(mem, &gid), "{} diverges (variant {variant})", mem.name);
        if mem.name != "carol" {
            assert!(can_talk(carol, mem, &gid), "{} cannot read carol", mem.name);
        }
    }
}

#[test]
fn chain_variant_0() {
    scenario::<mdk_memory_storage::MdkMemoryStorage>(0);
}
#[test]
fn chain_variant_0_sqlite() {
    scenario::<mdk_sqlite_storage::MdkSqliteStorage>(0);
}
#[test]
fn chain_variant_1() {
    scenario::<mdk_memory_storage::MdkMemoryStorage>(1);
}
#[test]
fn chain_variant_1_sqlite() {
    scenario::<mdk_sqlite_storage::MdkSqliteStorage>(1);
}
#[test]
fn chain_variant_2() {
    scenario::<mdk_memory_storage::MdkMemoryStorage>(2);
}
#[test]
fn chain_variant_2_sqlite() {
    scenario::<mdk_sqlite_storage::MdkSqliteStorage>(2);
}
#[test]
fn chain_variant_3() {
    scenario::<mdk_memory_storage::MdkMemoryStorage>(3);
}
#[test]
fn chain_variant_3_sqlite() {
    scenario::<mdk_sqlite_storage::MdkSqliteStorage>(3);
}
