//! R01 / H3..H8: competing committers that wait for the relay echo, in all delivery orders.

mod r01_common;
use r01_common::*;

use mdk_core::MdkConfig;
use mdk_core::prelude::*;
use nostr::Event;

fn permutations(n: usize) -> Vec<Vec<usize>> {
    fn rec(cur: &mut Vec<usize>, used: &mut Vec<bool>, out: &mut Vec<Vec<usize>>) {
        if cur.len() == used.len() {
            out.push(cur.clone());
            return;
        }
        for i in 0..used.len() {
            if !used[i] {
                used[i] = true;
                cur.push(i);
                rec(cur, used, out);
                cur.pop();
                used[i] = false;
            }
        }
    }
    let mut out = vec![];
    rec(&mut vec![], &mut vec![false; n], &mut out);
    out
}

#[derive(Clone, Copy, Debug)]
enum Act {
    Rename,
    SelfUpdate,
    AddNew,
    RemoveLast,
}

fn act<S: Mk>(m: &Member<S>, gid: &GroupId, a: Act, extra: &mut Vec<Member<S>>, victim: &Member<S>) -> Event {
    match a {
        Act::Rename => m
            .mdk
            .update_group_data(gid, NostrGroupDataUpdate::new().name(format!("by {}", m.name)))
            .expect("rename")
            .evolution_event,
        Act::SelfUpdate => m.mdk.self_update(gid).expect("self_update").evolution_event,
        Act::AddNew => {
            let n = new_member::<S>("newbie", MdkConfig::default());
            let kp = key_package_event(&n);
            extra.push(n);
            m.mdk.add_members(gid, &[kp]).expect("add").evolution_event
        }
        Act::RemoveLast => m
            .mdk
            .remove_members(gid, &[victim.keys.public_key()])
            .expect("remove")
            .evolution_event,
    }
}

/// Three committers (alice, bob admins; carol per `carol_admin`) commit on the same epoch and
/// wait for the echo; dave is a bystander; erin is the possible removal victim. Every member
/// receives the three commits in every order; then everything again until a fixpoint.
fn three_way<S: Mk>(acts: [Act; 3], carol_admin: bool, same_second: bool) {
    for perm in permutations(3) {
        let admins: Vec<usize> = if carol_admin { vec![0, 1, 2] } else { vec![0, 1] };
        let (m, gid) = setup::<S>(5, &admins, MdkConfig::default());
        let mut extra = vec![];
        let victim = &m[4];
        let mut evs: Vec<Event> = vec![];
        if same_second {
            // try to land all three in the same second
            let now = std::time::SystemTime::now()
                .duration_since(std::time::UNIX_EPOCH)
                .unwrap();
            let ms = now.subsec_millis();
            if ms > 500 {
                std::thread::sleep(std::time::Duration::from_millis((1005 - ms) as u64));
            }
        }
        for i in 0..3 {
            evs.push(act(&m[i], &gid, acts[i], &mut extra, victim));
            if !same_second && i < 2 {
                sleep_next_second();
            }
        }
        let labels = ["C0", "C1", "C2"];
        let sorted = mip03_sorted(evs.iter().enumerate().map(|(i, e)| (labels[i], e)).collect());
        let winner = sorted[0].0;
        println!(
            "=== acts={acts:?} perm={perm:?} winner={winner} ts={:?}",
            evs.iter().map(|e| e.created_at.as_secs() % 1000).collect::<Vec<_>>()
        );

        // every remaining member gets the commits in order `perm`, rotated per member
        let everyone: Vec<&Member<S>> = m.iter().collect();
        for (k, mem) in everyone.iter().enumerate() {
            for j in 0..3 {
                let idx = perm[(j + k) % 3];
                let _ = offer(mem, labels[idx], &evs[idx]);
            }
        }
        let all: Vec<(&str, &Event)> = (0..3).map(|i| (labels[i], &evs[i])).collect();
        fixpoint(&everyone, &gid, &all);

        // reference: the winner's author
        let widx = labels.iter().position(|l| *l == winner).unwrap();
        let reference = state(&m[widx], &gid);
        println!("reference ({}): {}", m[widx].name, short(&reference));
        for mem in &everyone {
            let s = state(mem, &gid);
            println!("{:<6}: {}", mem.name, short(&s));
            if !reference.members.contains(&mem.keys.public_key()) {
                continue; // removed by the winner
            }
            if mem.name == victim.name && acts.iter().any(|a| matches!(a, Act::RemoveLast)) {
                continue; // known: a member evicted by a losing commit cannot roll back
            }
            assert_eq!(
                reference, s,
                "{} diverges (acts={acts:?} perm={perm:?} winner={winner})",
                mem.name
            );
        }
        // functional check
        for mem in &everyone {
            if reference.members.contains(&mem.keys.public_key())
                && mem.name != m[widx].name
                && mem.name != victim.name
            {
                assert!(can_talk(&m[widx], mem, &gid), "{} cannot read", mem.name);
            }
        }
    }
}

#[test]
fn three_renames_distinct_seconds() {
    three_way::<mdk_memory_storage::MdkMemoryStorage>([Act::Rename, Act::Rename, Act::Rename], true, false);
}

#[test]
fn three_renames_distinct_seconds_sqlite() {
    three_way::<mdk_sqlite_storage::MdkSqliteStorage>([Act::Rename, Act::Rename, Act::Rename], true, false);
}

#[test]
fn three_same_second_tie_by_id() {
    three_way::<mdk_memory_storage::MdkMemoryStorage>([Act::Rename, Act::SelfUpdate, Act::Rename], true, true);
}

#[test]
fn three_same_second_tie_by_id_sqlite() {
    three_way::<mdk_sqlite_storage::MdkSqliteStorage>([Act::Rename, Act::SelfUpdate, Act::Rename], true, true);
}

#[test]
fn non_admin_self_update_vs_admin_commits() {
    three_way::<mdk_memory_storage::MdkMemoryStorage>([Act::Rename, Act::AddNew, Act::SelfUpdate], false, false);
}

#[test]
fn non_admin_self_update_vs_admin_commits_sqlite() {
    three_way::<mdk_sqlite_storage::MdkSqliteStorage>([Act::Rename, Act::AddNew, Act::SelfUpdate], false, false);
}

#[test]
fn non_admin_self_update_first() {
    three_way::<mdk_memory_storage::MdkMemoryStorage>([Act::SelfUpdate, Act::Rename, Act::SelfUpdate], true, false);
}

#[test]
fn non_admin_self_update_first_sqlite() {
    three_way::<mdk_sqlite_storage::MdkSqliteStorage>([Act::SelfUpdate, Act::Rename, Act::SelfUpdate], true, false);
}

#[test]
fn add_vs_remove_vs_self_update() {
    three_way::<mdk_memory_storage::MdkMemoryStorage>([Act::AddNew, Act::RemoveLast, Act::SelfUpdate], true, false);
}

#[test]
fn add_vs_remove_vs_self_update_sqlite() {
    three_way::<mdk_sqlite_storage::MdkSqliteStorage>([Act::AddNew, Act::RemoveLast, Act::SelfUpdate], true, false);
}
