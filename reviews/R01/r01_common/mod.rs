//! Shared harness for the R01 review tests (property C01: convergence on the
//! MIP-03-selected state).
#![allow(dead_code)]

use std::collections::BTreeSet;
use std::sync::{Arc, Mutex};

use mdk_core::callback::{MdkCallback, RollbackInfo};
use mdk_core::prelude::*;
use mdk_core::{MdkConfig, messages::MessageProcessingResult};
use mdk_memory_storage::MdkMemoryStorage;
use mdk_sqlite_storage::MdkSqliteStorage;
use mdk_storage_traits::test_utils::crypto_utils::generate_random_bytes;
use nostr::{Event, EventBuilder, EventId, Keys, Kind, PublicKey, RelayUrl};

#[derive(Debug, Default)]
pub struct Cb {
    pub rollbacks: Mutex<Vec<RollbackInfo>>,
}

impl MdkCallback for Cb {
    fn on_rollback(&self, info: &RollbackInfo) {
        self.rollbacks.lock().unwrap().push(info.clone());
    }
}

pub trait Mk: MdkStorageProvider + Sized {
    fn mk() -> Self;
}
impl Mk for MdkMemoryStorage {
    fn mk() -> Self {
        MdkMemoryStorage::default()
    }
}
impl Mk for MdkSqliteStorage {
    fn mk() -> Self {
        MdkSqliteStorage::new_unencrypted(":memory:").expect("sqlite in memory")
    }
}

pub struct Member<S: Mk = MdkMemoryStorage> {
    pub name: &'static str,
    pub keys: Keys,
    pub mdk: MDK<S>,
    pub cb: Arc<Cb>,
}

pub const NAMES: [&str; 8] = [
    "alice", "bob", "carol", "dave", "erin", "frank", "grace", "heidi",
];

pub fn new_member<S: Mk>(name: &'static str, config: MdkConfig) -> Member<S> {
    let cb = Arc::new(Cb::default());
    let mdk = MDK::builder(S::mk())
        .with_config(config)
        .with_callback(cb.clone())
        .build();
    Member {
        name,
        keys: Keys::generate(),
        mdk,
        cb,
    }
}

pub fn key_package_event<S: Mk>(m: &Member<S>) -> Event {
    let relays = vec![RelayUrl::parse("wss://test.relay").unwrap()];
    let (kp, tags, _) = m
        .mdk
        .create_key_package_for_event(&m.keys.public_key(), relays)
        .expect("key package");
    EventBuilder::new(Kind::MlsKeyPackage, kp)
        .tags(tags)
        .sign_with_keys(&m.keys)
        .expect("sign kp")
}

pub fn group_config(admins: Vec<PublicKey>) -> NostrGroupConfigData {
    let relays = vec![RelayUrl::parse("wss://test.relay").unwrap()];
    let image_hash: [u8; 32] = generate_random_bytes(32).try_into().unwrap();
    let image_key: [u8; 32] = generate_random_bytes(32).try_into().unwrap();
    let image_nonce: [u8; 12] = generate_random_bytes(12).try_into().unwrap();
    NostrGroupConfigData::new(
        "Test Group".to_owned(),
        "desc".to_owned(),
        Some(image_hash),
        Some(image_key),
        Some(image_nonce),
        relays,
        admins,
    )
}

/// Member 0 creates the group with everybody else; `admins` are indices.
pub fn setup<S: Mk>(n: usize, admins: &[usize], config: MdkConfig) -> (Vec<Member<S>>, GroupId) {
    let members: Vec<Member<S>> = (0..n).map(|i| new_member(NAMES[i], config.clone())).collect();
    let kps: Vec<Event> = members[1..].iter().map(key_package_event).collect();
    let admin_pks: Vec<PublicKey> = admins.iter().map(|i| members[*i].keys.public_key()).collect();
    let res = members[0]
        .mdk
        .create_group(&members[0].keys.public_key(), kps, group_config(admin_pks))
        .expect("create group");
    let gid = res.group.mls_group_id.clone();
    members[0].mdk.merge_pending_commit(&gid).expect("merge create");
    for (i, m) in members[1..].iter().enumerate() {
        let w = m
            .mdk
            .process_welcome(&EventId::all_zeros(), &res.welcome_rumors[i])
            .expect("process welcome");
        m.mdk.accept_welcome(&w).expect("accept welcome");
    }
    (members, gid)
}

#[derive(Debug, Clone, PartialEq, Eq)]
pub struct State {
    pub epoch: u64,
    pub tree_hash: String,
    pub members: BTreeSet<PublicKey>,
    pub name: String,
    pub admins: BTreeSet<PublicKey>,
    pub active: bool,
}

pub fn state<S: Mk>(m: &Member<S>, gid: &GroupId) -> State {
    let g = m.mdk.get_group(gid).expect("get_group").expect("group exists");
    let tree = m.mdk.get_ratchet_tree_info(gid).expect("tree");
    State {
        epoch: g.epoch,
        tree_hash: tree.tree_hash,
        members: m.mdk.get_members(gid).expect("members"),
        name: g.name.clone(),
        admins: g.admin_pubkeys.clone(),
        active: g.state == group_types::GroupState::Active,
    }
}

pub fn short(s: &State) -> String {
    format!(
        "epoch={} tree={} members={} name={:?} admins={} active={}",
        s.epoch,
        &s.tree_hash[..8],
        s.members.len(),
        s.name,
        s.admins.len(),
        s.active
    )
}

/// Offer an event, print the outcome.
pub fn offer<S: Mk>(m: &Member<S>, label: &str, ev: &Event) -> Result<MessageProcessingResult, mdk_core::Error> {
    let r = m.mdk.process_message(ev);
    let desc = match &r {
        Ok(MessageProcessingResult::ApplicationMessage(_)) => "ApplicationMessage".to_string(),
        Ok(MessageProcessingResult::Commit { .. }) => "Commit".to_string(),
        Ok(MessageProcessingResult::Proposal(_)) => "Proposal(auto-commit)".to_string(),
        Ok(MessageProcessingResult::PendingProposal { .. }) => "PendingProposal".to_string(),
        Ok(MessageProcessingResult::Unprocessable { .. }) => "Unprocessable".to_string(),
        Ok(other) => format!("{:?}", other).chars().take(40).collect(),
        Err(e) => format!("Err({e})"),
    };
    println!("  {:<6} <- {:<14} : {}", m.name, label, desc);
    r
}

/// MIP-03 order: earliest created_at, then smallest id.
pub fn mip03_sorted<'a>(mut evs: Vec<(&'a str, &'a Event)>) -> Vec<(&'a str, &'a Event)> {
    evs.sort_by(|a, b| {
        (a.1.created_at.as_secs(), a.1.id.to_hex()).cmp(&(b.1.created_at.as_secs(), b.1.id.to_hex()))
    });
    evs
}

/// Offer all events (in the given order) to every listed member again and again until a whole
/// round changes no member's state. Returns the number of rounds.
pub fn fixpoint<S: Mk>(members: &[&Member<S>], gid: &GroupId, events: &[(&str, &Event)]) -> usize {
    let mut rounds = 0;
    loop {
        rounds += 1;
        let before: Vec<State> = members.iter().map(|m| state(m, gid)).collect();
        for m in members {
            for (label, ev) in events {
                let _ = offer(m, label, ev);
            }
        }
        let after: Vec<State> = members.iter().map(|m| state(m, gid)).collect();
        if before == after || rounds > 10 {
            return rounds;
        }
    }
}

pub fn sleep_next_second() {
    std::thread::sleep(std::time::Duration::from_millis(1100));
}

pub fn rumor<S: Mk>(m: &Member<S>, text: &str) -> nostr::UnsignedEvent {
    EventBuilder::new(Kind::TextNote, text).build(m.keys.public_key())
}

/// Can `to` read a fresh message from `from`?
pub fn can_talk<S: Mk>(from: &Member<S>, to: &Member<S>, gid: &GroupId) -> bool {
    let ev = match from.mdk.create_message(gid, rumor(from, "ping")) {
        Ok(ev) => ev,
        Err(_) => return false,
    };
    matches!(
        to.mdk.process_message(&ev),
        Ok(MessageProcessingResult::ApplicationMessage(_))
    )
}
