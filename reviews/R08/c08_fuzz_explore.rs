//! Exploratory random walk for C08 (stored record mirrors MLS state). Not a deliverable.
#![cfg(feature = "debug-examples")]

use std::collections::BTreeSet;

use mdk_core::MDK;
use mdk_core::extension::NostrGroupDataExtension;
use mdk_core::groups::{NostrGroupConfigData, NostrGroupDataUpdate};
use mdk_core::messages::MessageProcessingResult;
use mdk_memory_storage::MdkMemoryStorage;
use mdk_sqlite_storage::MdkSqliteStorage;
use mdk_storage_traits::groups::GroupStorage;
use mdk_storage_traits::groups::types::GroupState;
use mdk_storage_traits::{GroupId, MdkStorageProvider};
use nostr::{Event, EventBuilder, EventId, Keys, Kind, RelayUrl, UnsignedEvent};
use openmls_traits::OpenMlsProvider;

static ROLLBACKS: std::sync::atomic::AtomicUsize = std::sync::atomic::AtomicUsize::new(0);
#[derive(Debug)]
struct Cb;
impl mdk_core::callback::MdkCallback for Cb {
    fn on_rollback(&self, _info: &mdk_core::callback::RollbackInfo) {
        ROLLBACKS.fetch_add(1, std::sync::atomic::Ordering::SeqCst);
    }
}
fn cfg_from_env() -> mdk_core::MdkConfig {
    let mut c = mdk_core::MdkConfig::default();
    if let Ok(v) = std::env::var("C08_RETENTION") { c.epoch_snapshot_retention = v.parse().unwrap(); }
    if let Ok(v) = std::env::var("C08_PAST") { c.max_past_epochs = v.parse().unwrap(); }
    if let Ok(v) = std::env::var("C08_TTL") { c.snapshot_ttl_seconds = v.parse().unwrap(); }
    c
}
struct Rng(u64);
impl Rng {
    fn next(&mut self) -> u64 {
        let mut x = self.0;
        x ^= x << 13;
        x ^= x >> 7;
        x ^= x << 17;
        self.0 = x;
        x
    }
    fn below(&mut self, n: usize) -> usize {
        (self.next() % n as u64) as usize
    }
}

struct Client<S: MdkStorageProvider> {
    name: &'static str,
    keys: Keys,
    mdk: MDK<S>,
}

fn kp<S: MdkStorageProvider>(c: &Client<S>) -> Event {
    let relays = vec![RelayUrl::parse("wss://test.relay").unwrap()];
    let (hex, tags, _) = c
        .mdk
        .create_key_package_for_event(&c.keys.public_key(), relays)
        .unwrap();
    EventBuilder::new(Kind::MlsKeyPackage, hex)
        .tags(tags)
        .sign_with_keys(&c.keys)
        .unwrap()
}

fn check<S: MdkStorageProvider>(c: &Client<S>, gid: &GroupId, log: &[String]) {
    let Some(rec) = c.mdk.get_group(gid).unwrap() else {
        return;
    };
    if rec.state != GroupState::Active {
        return;
    }
    let mls = c.mdk.load_mls_group(gid).unwrap().expect("mls group");
    if !mls.is_active() {
        panic!("{}: record Active but MLS inactive\n{}", c.name, log.join("\n"));
    }
    let ext = NostrGroupDataExtension::from_group(&mls).unwrap();
    let relays: BTreeSet<RelayUrl> = c.mdk.get_relays(gid).unwrap();
    let mut diffs = vec![];
    if rec.epoch != mls.epoch().as_u64() {
        diffs.push(format!("epoch rec={} mls={}", rec.epoch, mls.epoch().as_u64()));
    }
    if rec.name != ext.name {
        diffs.push(format!("name rec={} mls={}", rec.name, ext.name));
    }
    if rec.description != ext.description {
        diffs.push("description".into());
    }
    if rec.admin_pubkeys != ext.admins {
        diffs.push("admins".into());
    }
    if rec.nostr_group_id != ext.nostr_group_id {
        diffs.push("nostr_group_id".into());
    }
    if rec.image_hash != ext.image_hash {
        diffs.push("image_hash".into());
    }
    if rec.image_key.as_ref().map(|k| **k) != ext.image_key {
        diffs.push("image_key".into());
    }
    if rec.image_nonce.as_ref().map(|k| **k) != ext.image_nonce {
        diffs.push("image_nonce".into());
    }
    if relays != ext.relays {
        diffs.push(format!("relays rec={:?} mls={:?}", relays, ext.relays));
    }
    let routed = c
        .mdk
        .provider
        .storage()
        .find_group_by_nostr_group_id(&ext.nostr_group_id)
        .unwrap();
    match routed {
        Some(g) if &g.mls_group_id == gid => {
            if g.epoch != rec.epoch || g.name != rec.name {
                diffs.push("index copy differs from record".into());
            }
        }
        _ => diffs.push("routing by current nostr id fails".into()),
    }
    if !diffs.is_empty() {
        panic!(
            "{}: MIRROR VIOLATION {:?}\n{}",
            c.name,
            diffs,
            log.join("\n")
        );
    }
}

fn run<S: MdkStorageProvider>(seed: u64, steps: usize, mk: &dyn Fn(usize) -> S, restartable: bool) {
    let mut rng = Rng(seed.wrapping_mul(0x9E3779B97F4A7C15) | 1);
    let names = ["alice", "bob", "carol", "dave"];
    let mut clients: Vec<Client<S>> = names
        .iter()
        .enumerate()
        .map(|(i, n)| Client {
            name: n,
            keys: Keys::generate(),
            mdk: MDK::builder(mk(i)).with_config(cfg_from_env()).with_callback(std::sync::Arc::new(Cb)).build(),
        })
        .collect();
    let mut cursor = [0usize; 4];
    let admins = vec![clients[0].keys.public_key(), clients[1].keys.public_key()];
    let cfg = NostrGroupConfigData::new(
        "g".into(),
        "d".into(),
        None,
        None,
        None,
        vec![RelayUrl::parse("wss://r0.example").unwrap()],
        admins,
    );
    let res = clients[0]
        .mdk
        .create_group(
            &clients[0].keys.public_key(),
            vec![kp(&clients[1]), kp(&clients[2])],
            cfg,
        )
        .unwrap();
    let gid = res.group.mls_group_id.clone();
    for (i, w) in res.welcome_rumors.iter().enumerate() {
        let c = &clients[i + 1];
        let wl = c.mdk.process_welcome(&EventId::all_zeros(), w).unwrap();
        c.mdk.accept_welcome(&wl).unwrap();
    }
    let mut pool: Vec<Event> = vec![];
    let mut welcomes: Vec<(usize, UnsignedEvent)> = vec![];
    let mut log: Vec<String> = vec![];
    let mut ctr = 0u32;

    for step in 0..steps {
        let ci = rng.below(4);
        if restartable && rng.below(25) == 0 {
            let keys = clients[ci].keys.clone();
            let name = clients[ci].name;
            // drop the old instance first (closes the connection), then reopen
            let old = clients.remove(ci);
            drop(old);
            clients.insert(ci, Client { name, keys, mdk: MDK::builder(mk(ci)).with_config(cfg_from_env()).with_callback(std::sync::Arc::new(Cb)).build() });
            log.push(format!("[{step}] {} RESTART", name));
        }
        let c = &clients[ci];
        let mut op = rng.below(14);
        let desc;
        // convergent scheduling: most of the time deliver the next event in order
        if rng.below(100) < 55 {
            op = 100;
        }
        match op {
            100 => {
                if cursor[ci] < pool.len() {
                    let k = cursor[ci];
                    cursor[ci] += 1;
                    let ev = pool[k].clone();
                    let r = c.mdk.process_message(&ev);
                    let s = match &r {
                        Ok(MessageProcessingResult::Proposal(u)) => {
                            pool.push(u.evolution_event.clone());
                            "Proposal(auto-commit)".to_string()
                        }
                        Ok(x) => format!("{:?}", x).chars().take(40).collect(),
                        Err(e) => format!("Err({e})").chars().take(60).collect(),
                    };
                    desc = format!("{} next ev{} -> {}", c.name, k, s);
                } else {
                    desc = "caught up".into();
                }
            }
            0 | 1 => {
                // update group data
                ctr += 1;
                let mut u = NostrGroupDataUpdate::new();
                let which = rng.below(6);
                match which {
                    0 => u = u.name(format!("n{ctr}")),
                    1 => u = u.description(format!("d{ctr}")),
                    2 => {
                        let mut id = [0u8; 32];
                        id[0] = ctr as u8;
                        id[1] = (ctr >> 8) as u8;
                        id[31] = 7;
                        u = u.nostr_group_id(id)
                    }
                    3 => {
                        let n = rng.below(3);
                        let rel: Vec<RelayUrl> = (0..n)
                            .map(|k| RelayUrl::parse(&format!("wss://r{ctr}x{k}.example")).unwrap())
                            .collect();
                        u = u.relays(rel)
                    }
                    4 => {
                        if rng.below(2) == 0 {
                            u = u.image_hash(None)
                        } else {
                            u = u
                                .image_hash(Some([ctr as u8; 32]))
                                .image_key(Some([ctr as u8; 32]))
                                .image_nonce(Some([ctr as u8; 12]))
                        }
                    }
                    _ => {
                        // admins: subset of alice,bob,carol containing at least one
                        let mut a = vec![];
                        for k in 0..3 {
                            if rng.below(2) == 0 {
                                a.push(clients[k].keys.public_key());
                            }
                        }
                        if a.is_empty() {
                            a.push(clients[0].keys.public_key());
                        }
                        u = u.admins(a)
                    }
                }
                let r = c.mdk.update_group_data(&gid, u);
                desc = format!("{} update_group_data#{which} -> {}", c.name, r.is_ok());
                if let Ok(r) = r {
                    pool.push(r.evolution_event);
                }
            }
            2 => {
                let r = c.mdk.self_update(&gid);
                desc = format!("{} self_update -> {}", c.name, r.is_ok());
                if let Ok(r) = r {
                    pool.push(r.evolution_event);
                }
            }
            3 => {
                // add dave (or carol) back
                let t = 2 + rng.below(2);
                let r = c.mdk.add_members(&gid, &[kp(&clients[t])]);
                desc = format!("{} add {} -> {}", c.name, clients[t].name, r.is_ok());
                if let Ok(r) = r {
                    pool.push(r.evolution_event);
                    if let Some(ws) = r.welcome_rumors {
                        for w in ws {
                            welcomes.push((t, w));
                        }
                    }
                }
            }
            4 => {
                let t = 1 + rng.below(3);
                let r = c.mdk.remove_members(&gid, &[clients[t].keys.public_key()]);
                desc = format!("{} remove {} -> {}", c.name, clients[t].name, r.is_ok());
                if let Ok(r) = r {
                    pool.push(r.evolution_event);
                }
            }
            5 => {
                if ci < 2 || rng.below(3) != 0 {
                    desc = "skip leave".to_string();
                } else {
                    let r = c.mdk.leave_group(&gid);
                    desc = format!("{} leave -> {}", c.name, r.is_ok());
                    if let Ok(r) = r {
                        pool.push(r.evolution_event);
                    }
                }
            }
            6 => {
                let r = c.mdk.merge_pending_commit(&gid);
                desc = format!("{} merge_pending -> {}", c.name, r.is_ok());
            }
            7 => {
                if rng.below(3) == 0 {
                    let r = c.mdk.clear_pending_commit(&gid);
                    desc = format!("{} clear_pending -> {}", c.name, r.is_ok());
                } else {
                    let r = c.mdk.merge_pending_commit(&gid);
                    desc = format!("{} merge_pending -> {}", c.name, r.is_ok());
                }
            }
            8 => {
                ctr += 1;
                let rumor = EventBuilder::new(Kind::TextNote, format!("m{ctr}"))
                    .build(c.keys.public_key());
                let r = c.mdk.create_message(&gid, rumor);
                desc = format!("{} message -> {}", c.name, r.is_ok());
                if let Ok(e) = r {
                    pool.push(e);
                }
            }
            9 => {
                if welcomes.is_empty() {
                    desc = "no welcome".into();
                } else {
                    let k = rng.below(welcomes.len());
                    let (t, w) = welcomes.remove(k);
                    let tc = &clients[t];
                    let mut wid = [0u8; 32];
                    wid[0] = step as u8;
                    wid[1] = (step >> 8) as u8;
                    let r = tc
                        .mdk
                        .process_welcome(&EventId::from_byte_array(wid), &w)
                        .and_then(|wl| tc.mdk.accept_welcome(&wl));
                    desc = format!("{} welcome -> {:?}", tc.name, r.is_ok());
                }
            }
            _ => {
                if pool.is_empty() {
                    desc = "empty pool".into();
                } else {
                    // bias towards recent events
                    let k = if rng.below(3) == 0 {
                        rng.below(pool.len())
                    } else {
                        pool.len() - 1 - rng.below(pool.len().min(4))
                    };
                    let ev = pool[k].clone();
                    let r = c.mdk.process_message(&ev);
                    let s = match &r {
                        Ok(MessageProcessingResult::Proposal(u)) => {
                            pool.push(u.evolution_event.clone());
                            "Proposal(auto-commit)".to_string()
                        }
                        Ok(x) => format!("{:?}", x).chars().take(40).collect(),
                        Err(e) => format!("Err({e})").chars().take(60).collect(),
                    };
                    desc = format!("{} process ev{} -> {}", c.name, k, s);
                }
            }
        }
        log.push(format!("[{step}] {desc}"));
        for c in &clients {
            check(c, &gid, &log);
        }
    }
    eprintln!("rollbacks so far: {}", ROLLBACKS.load(std::sync::atomic::Ordering::SeqCst));
    if std::env::var("C08_VERBOSE").is_ok() {
        eprintln!("{}", log.join("\n"));
        for c in &clients {
            let g = c.mdk.get_group(&gid).unwrap();
            eprintln!("{} final: {:?}", c.name, g.map(|g| (g.state, g.epoch)));
        }
    }
}

#[test]
fn fuzz_memory() {
    let seeds: u64 = std::env::var("C08_SEEDS").ok().and_then(|s| s.parse().ok()).unwrap_or(30);
    let start: u64 = std::env::var("C08_START").ok().and_then(|s| s.parse().ok()).unwrap_or(1);
    for seed in start..start + seeds {
        eprintln!("seed {seed}");
        run(seed, 300, &|_| MdkMemoryStorage::default(), false);
    }
}

#[test]
fn fuzz_sqlite() {
    let seeds: u64 = std::env::var("C08_SEEDS").ok().and_then(|s| s.parse().ok()).unwrap_or(30);
    let start: u64 = std::env::var("C08_START").ok().and_then(|s| s.parse().ok()).unwrap_or(1);
    for seed in start..start + seeds {
        eprintln!("seed {seed}");
        let dir = tempfile::tempdir().unwrap();
        let base = dir.path().to_path_buf();
        run(seed, 300, &|i| MdkSqliteStorage::new_unencrypted(base.join(format!("c{i}.db"))).unwrap(), true);
    }
}
