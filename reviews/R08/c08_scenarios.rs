//! Targeted scenarios for C08 (stored record mirrors the MLS state and routes events to it).
#![cfg(feature = "debug-examples")]

use std::collections::BTreeSet;

use mdk_core::MDK;
use mdk_core::extension::NostrGroupDataExtension;
use mdk_core::groups::{NostrGroupConfigData, NostrGroupDataUpdate};
use mdk_core::messages::MessageProcessingResult;
use mdk_memory_storage::MdkMemoryStorage;
use mdk_sqlite_storage::MdkSqliteStorage;
use mdk_storage_traits::groups::GroupStorage;
use mdk_storage_traits::groups::types::GroupState;
use mdk_storage_traits::{GroupId, MdkStorageProvider};
use nostr::{Event, EventBuilder, EventId, Keys, Kind, RelayUrl};
use openmls_traits::OpenMlsProvider;

fn kp<S: MdkStorageProvider>(mdk: &MDK<S>, keys: &Keys) -> Event {
    let relays = vec![RelayUrl::parse("wss://test.relay").unwrap()];
    let (hex, tags, _) = mdk
        .create_key_package_for_event(&keys.public_key(), relays)
        .unwrap();
    EventBuilder::new(Kind::MlsKeyPackage, hex)
        .tags(tags)
        .sign_with_keys(keys)
        .unwrap()
}

/// Returns the list of differences between the stored record and the MLS state.
fn mirror_diffs<S: MdkStorageProvider>(mdk: &MDK<S>, gid: &GroupId) -> Vec<String> {
    let rec = mdk.get_group(gid).unwrap().expect("record");
    let mls = mdk.load_mls_group(gid).unwrap().expect("mls group");
    let ext = NostrGroupDataExtension::from_group(&mls).unwrap();
    let relays: BTreeSet<RelayUrl> = mdk.get_relays(gid).unwrap();
    let mut diffs = vec![];
    if rec.state != GroupState::Active {
        diffs.push(format!("state {:?}", rec.state));
    }
    if rec.epoch != mls.epoch().as_u64() {
        diffs.push(format!("epoch rec={} mls={}", rec.epoch, mls.epoch().as_u64()));
    }
    if rec.name != ext.name {
        diffs.push(format!("name rec={} mls={}", rec.name, ext.name));
    }
    if rec.description != ext.description {
        diffs.push("description".into());
    }
    if rec.admin_pubkeys != ext.admins {
        diffs.push("admins".into());
    }
    if rec.nostr_group_id != ext.nostr_group_id {
        diffs.push("nostr_group_id".into());
    }
    if rec.image_hash != ext.image_hash {
        diffs.push("image_hash".into());
    }
    if rec.image_key.as_ref().map(|k| **k) != ext.image_key {
        diffs.push("image_key".into());
    }
    if rec.image_nonce.as_ref().map(|k| **k) != ext.image_nonce {
        diffs.push("image_nonce".into());
    }
    if relays != ext.relays {
        diffs.push(format!("relays rec={relays:?} mls={:?}", ext.relays));
    }
    match mdk
        .provider
        .storage()
        .find_group_by_nostr_group_id(&ext.nostr_group_id)
        .unwrap()
    {
        Some(g) if &g.mls_group_id == gid => {}
        Some(_) => diffs.push("current nostr id routes to ANOTHER group".into()),
        None => diffs.push("current nostr id routes nowhere".into()),
    }
    diffs
}

fn assert_mirror<S: MdkStorageProvider>(mdk: &MDK<S>, gid: &GroupId, at: &str) {
    let d = mirror_diffs(mdk, gid);
    assert!(d.is_empty(), "{at}: record does not mirror MLS state: {d:?}");
}

fn better(a: &Event, b: &Event) -> bool {
    (a.created_at.as_secs(), a.id.to_hex()) < (b.created_at.as_secs(), b.id.to_hex())
}

struct World<S: MdkStorageProvider> {
    alice: (Keys, MDK<S>),
    bob: (Keys, MDK<S>),
    carol: (Keys, MDK<S>),
    gid: GroupId,
}

fn setup<S: MdkStorageProvider>(mk: &dyn Fn(&str) -> S) -> World<S> {
    let alice = (Keys::generate(), MDK::new(mk("alice")));
    let bob = (Keys::generate(), MDK::new(mk("bob")));
    let carol = (Keys::generate(), MDK::new(mk("carol")));
    let cfg = NostrGroupConfigData::new(
        "g".into(),
        "d".into(),
        None,
        None,
        None,
        vec![RelayUrl::parse("wss://r0.example").unwrap()],
        vec![alice.0.public_key(), bob.0.public_key()],
    );
    let res = alice
        .1
        .create_group(
            &alice.0.public_key(),
            vec![kp(&bob.1, &bob.0), kp(&carol.1, &carol.0)],
            cfg,
        )
        .unwrap();
    let gid = res.group.mls_group_id.clone();
    for (m, w) in [&bob, &carol].iter().zip(res.welcome_rumors.iter()) {
        let wl = m.1.process_welcome(&EventId::all_zeros(), w).unwrap();
        m.1.accept_welcome(&wl).unwrap();
    }
    World {
        alice,
        bob,
        carol,
        gid,
    }
}

/// Make alice and bob produce competing commits for the current epoch such that alice's
/// commit (built by `ua`) is the BETTER one. Returns (alice_commit, bob_commit).
fn race<S: MdkStorageProvider>(
    w: &World<S>,
    ua: &dyn Fn() -> NostrGroupDataUpdate,
    ub: &dyn Fn() -> NostrGroupDataUpdate,
) -> (Event, Event) {
    loop {
        let a = w.alice.1.update_group_data(&w.gid, ua()).unwrap().evolution_event;
        let b = w.bob.1.update_group_data(&w.gid, ub()).unwrap().evolution_event;
        if better(&a, &b) {
            return (a, b);
        }
        w.alice.1.clear_pending_commit(&w.gid).unwrap();
        w.bob.1.clear_pending_commit(&w.gid).unwrap();
    }
}

fn scenario_rotation_rollback<S: MdkStorageProvider>(
    mk: &dyn Fn(&str) -> S,
    restart_carol: Option<&dyn Fn() -> S>,
) {
    let mut w = setup(mk);
    let new_id = [0x42u8; 32];
    // alice: rotate id + replace relays by the empty set (winner); bob: rename (loser)
    let (a, b) = race(
        &w,
        &|| {
            NostrGroupDataUpdate::new()
                .nostr_group_id(new_id)
                .relays(vec![])
        },
        &|| NostrGroupDataUpdate::new().name("bobs-name"),
    );
    // carol sees the loser first
    assert!(matches!(
        w.carol.1.process_message(&b).unwrap(),
        MessageProcessingResult::Commit { .. }
    ));
    assert_mirror(&w.carol.1, &w.gid, "carol after loser");
    assert_eq!(w.carol.1.get_group(&w.gid).unwrap().unwrap().name, "bobs-name");
    // then the winner: rollback + apply
    assert!(matches!(
        w.carol.1.process_message(&a).unwrap(),
        MessageProcessingResult::Commit { .. }
    ));
    assert_mirror(&w.carol.1, &w.gid, "carol after winner");
    let rec = w.carol.1.get_group(&w.gid).unwrap().unwrap();
    assert_eq!(rec.nostr_group_id, new_id);
    assert_eq!(rec.name, "g");
    assert!(w.carol.1.get_relays(&w.gid).unwrap().is_empty());

    // alice applies her own commit, bob loses and follows (bob processed his own first)
    w.alice.1.merge_pending_commit(&w.gid).unwrap();
    assert_mirror(&w.alice.1, &w.gid, "alice after merge");
    w.bob.1.process_message(&b).unwrap();
    assert_mirror(&w.bob.1, &w.gid, "bob after own");
    w.bob.1.process_message(&a).unwrap();
    assert_mirror(&w.bob.1, &w.gid, "bob after winner");
    assert_eq!(
        w.bob.1.get_group(&w.gid).unwrap().unwrap().nostr_group_id,
        new_id
    );

    if let Some(re) = restart_carol {
        let keys = w.carol.0.clone();
        let old = std::mem::replace(&mut w.carol, (keys.clone(), MDK::new(re())));
        drop(old);
        // the replacement above opened a second handle while the first was alive; reopen once
        // more so that only one handle exists
        w.carol = (keys, MDK::new(re()));
        assert_mirror(&w.carol.1, &w.gid, "carol after restart");
    }

    // traffic under the new id
    let rumor = EventBuilder::new(Kind::TextNote, "hello").build(w.alice.0.public_key());
    let msg = w.alice.1.create_message(&w.gid, rumor).unwrap();
    assert!(matches!(
        w.carol.1.process_message(&msg).unwrap(),
        MessageProcessingResult::ApplicationMessage(_)
    ));
    assert_mirror(&w.carol.1, &w.gid, "carol after message");

    // second round: rotate back relays + image, then race again where winner sets relays
    let (a2, b2) = race(
        &w,
        &|| {
            NostrGroupDataUpdate::new().relays(vec![
                RelayUrl::parse("wss://r1.example").unwrap(),
                RelayUrl::parse("wss://r2.example").unwrap(),
            ])
        },
        &|| {
            NostrGroupDataUpdate::new()
                .nostr_group_id([0x43u8; 32])
                .image_hash(Some([9u8; 32]))
                .image_key(Some([8u8; 32]))
                .image_nonce(Some([7u8; 12]))
        },
    );
    w.carol.1.process_message(&b2).unwrap();
    assert_mirror(&w.carol.1, &w.gid, "carol after loser 2");
    assert_eq!(
        w.carol.1.get_group(&w.gid).unwrap().unwrap().nostr_group_id,
        [0x43u8; 32]
    );
    // the winner is tagged with the id carol has rotated away from: known weakness (not
    // routed). Just make sure the record still mirrors afterwards.
    let _ = w.carol.1.process_message(&a2);
    assert_mirror(&w.carol.1, &w.gid, "carol after winner 2");
}

#[test]
fn rotation_rollback_memory() {
    scenario_rotation_rollback(&|_| MdkMemoryStorage::default(), None);
}

#[test]
fn rotation_rollback_sqlite_restart() {
    let dir = tempfile::tempdir().unwrap();
    let base = dir.path().to_path_buf();
    let b2 = base.clone();
    scenario_rotation_rollback(
        &|n| MdkSqliteStorage::new_unencrypted(base.join(format!("{n}.db"))).unwrap(),
        Some(&|| MdkSqliteStorage::new_unencrypted(b2.join("carol.db")).unwrap()),
    );
}

/// Two groups with the same members on one client: a rollback in one group must not disturb the
/// record, relays and routing of the other.
fn scenario_two_groups<S: MdkStorageProvider>(mk: &dyn Fn(&str) -> S) {
    let w = setup(mk);
    // second group created by bob with alice and carol
    let cfg = NostrGroupConfigData::new(
        "g2".into(),
        "d2".into(),
        Some([1u8; 32]),
        Some([2u8; 32]),
        Some([3u8; 12]),
        vec![RelayUrl::parse("wss://g2.example").unwrap()],
        vec![w.bob.0.public_key(), w.alice.0.public_key()],
    );
    let res = w
        .bob
        .1
        .create_group(
            &w.bob.0.public_key(),
            vec![kp(&w.alice.1, &w.alice.0), kp(&w.carol.1, &w.carol.0)],
            cfg,
        )
        .unwrap();
    let gid2 = res.group.mls_group_id.clone();
    for (m, wl) in [&w.alice, &w.carol].iter().zip(res.welcome_rumors.iter()) {
        let x = m.1.process_welcome(&EventId::from_byte_array([5u8; 32]), wl).unwrap();
        m.1.accept_welcome(&x).unwrap();
    }
    assert_mirror(&w.carol.1, &gid2, "carol g2 joined");

    // race in group 1 while group 2 rotates its id and relays
    let (a, b) = race(
        &w,
        &|| NostrGroupDataUpdate::new().nostr_group_id([0x51u8; 32]),
        &|| NostrGroupDataUpdate::new().name("loser"),
    );
    w.carol.1.process_message(&b).unwrap();
    let g2c = w
        .bob
        .1
        .update_group_data(
            &gid2,
            NostrGroupDataUpdate::new()
                .nostr_group_id([0x52u8; 32])
                .relays(vec![RelayUrl::parse("wss://g2b.example").unwrap()]),
        )
        .unwrap()
        .evolution_event;
    w.carol.1.process_message(&g2c).unwrap();
    assert_mirror(&w.carol.1, &gid2, "carol g2 after rotation");
    w.carol.1.process_message(&a).unwrap(); // rollback of group 1
    assert_mirror(&w.carol.1, &w.gid, "carol g1 after rollback");
    assert_mirror(&w.carol.1, &gid2, "carol g2 after g1 rollback");
    w.bob.1.merge_pending_commit(&gid2).unwrap();
    let rumor = EventBuilder::new(Kind::TextNote, "g2 msg").build(w.bob.0.public_key());
    let m = w.bob.1.create_message(&gid2, rumor).unwrap();
    match w.carol.1.process_message(&m).unwrap() {
        MessageProcessingResult::ApplicationMessage(msg) => assert_eq!(msg.mls_group_id, gid2),
        other => panic!("unexpected {other:?}"),
    }
}

#[test]
fn two_groups_memory() {
    scenario_two_groups(&|_| MdkMemoryStorage::default());
}

#[test]
fn two_groups_sqlite() {
    scenario_two_groups(&|_| MdkSqliteStorage::new_unencrypted(":memory:").unwrap());
}

/// Removal, id rotation while away, re-invitation, then a race with rollback after the re-join.
fn scenario_reinvite<S: MdkStorageProvider>(mk: &dyn Fn(&str) -> S) {
    let w = setup(mk);
    // alice removes carol
    let rm = w
        .alice
        .1
        .remove_members(&w.gid, &[w.carol.0.public_key()])
        .unwrap()
        .evolution_event;
    w.alice.1.merge_pending_commit(&w.gid).unwrap();
    w.bob.1.process_message(&rm).unwrap();
    w.carol.1.process_message(&rm).unwrap();
    assert_eq!(
        w.carol.1.get_group(&w.gid).unwrap().unwrap().state,
        GroupState::Inactive
    );
    // rotation while carol is away
    let rot = w
        .alice
        .1
        .update_group_data(
            &w.gid,
            NostrGroupDataUpdate::new()
                .nostr_group_id([0x61u8; 32])
                .name("while-away")
                .relays(vec![RelayUrl::parse("wss://away.example").unwrap()]),
        )
        .unwrap()
        .evolution_event;
    w.alice.1.merge_pending_commit(&w.gid).unwrap();
    w.bob.1.process_message(&rot).unwrap();
    assert_mirror(&w.bob.1, &w.gid, "bob after rotation");
    // re-invite
    let add = w
        .alice
        .1
        .add_members(&w.gid, &[kp(&w.carol.1, &w.carol.0)])
        .unwrap();
    w.alice.1.merge_pending_commit(&w.gid).unwrap();
    w.bob.1.process_message(&add.evolution_event).unwrap();
    let wl = w
        .carol
        .1
        .process_welcome(
            &EventId::from_byte_array([6u8; 32]),
            &add.welcome_rumors.unwrap()[0],
        )
        .unwrap();
    w.carol.1.accept_welcome(&wl).unwrap();
    assert_mirror(&w.carol.1, &w.gid, "carol after re-join");
    // race after re-join
    let (a, b) = race(
        &w,
        &|| {
            NostrGroupDataUpdate::new()
                .nostr_group_id([0x62u8; 32])
                .relays(vec![RelayUrl::parse("wss://back.example").unwrap()])
        },
        &|| NostrGroupDataUpdate::new().description("loser"),
    );
    w.carol.1.process_message(&b).unwrap();
    assert_mirror(&w.carol.1, &w.gid, "carol after loser");
    w.carol.1.process_message(&a).unwrap();
    assert_mirror(&w.carol.1, &w.gid, "carol after winner");
    assert_eq!(
        w.carol.1.get_group(&w.gid).unwrap().unwrap().nostr_group_id,
        [0x62u8; 32]
    );
    // stale events from before the removal, delivered again
    let _ = w.carol.1.process_message(&rm);
    let _ = w.carol.1.process_message(&rot);
    assert_mirror(&w.carol.1, &w.gid, "carol after stale traffic");
}

#[test]
fn reinvite_memory() {
    scenario_reinvite(&|_| MdkMemoryStorage::default());
}

#[test]
fn reinvite_sqlite() {
    scenario_reinvite(&|_| MdkSqliteStorage::new_unencrypted(":memory:").unwrap());
}
