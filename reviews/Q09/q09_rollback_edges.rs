//! Q09 / property C09: directed edge cases for snapshot / rollback / release / prune.

use std::collections::BTreeSet;

use mdk_memory_storage::MdkMemoryStorage;
use mdk_sqlite_storage::MdkSqliteStorage;
use mdk_storage_traits::groups::types::{GroupExporterSecret, GroupState, SelfUpdateState};
use mdk_storage_traits::{GroupId, MdkStorageProvider, Secret};
use nostr::{EventId, RelayUrl, Timestamp};
use openmls_traits::storage::{Entity, Key, traits};
use serde::{Deserialize, Serialize};

mod shared;

#[derive(Debug, Clone, PartialEq, Eq, PartialOrd, Ord, Serialize, Deserialize)]
struct Blob(Vec<u8>);
impl Key<1> for Blob {}
impl Entity<1> for Blob {}
impl traits::EpochKey<1> for Blob {}
impl traits::QueuedProposal<1> for Blob {}
impl traits::TreeSync<1> for Blob {}
impl traits::HpkeKeyPair<1> for Blob {}
impl traits::LeafNode<1> for Blob {}
impl traits::ProposalRef<1> for Blob {}
impl traits::GroupContext<1> for Blob {}

fn sqlite() -> (tempfile::TempDir, MdkSqliteStorage) {
    let dir = tempfile::tempdir().unwrap();
    let s = MdkSqliteStorage::new_unencrypted(dir.path().join("e.db")).unwrap();
    (dir, s)
}

// ---------------------------------------------------------------------------------------------

fn many_leaf_nodes_and_extreme_keys<S: MdkStorageProvider>(s: &S) {
    let gid = GroupId::from_slice(&[5; 16]);
    let other = GroupId::from_slice(&[5; 17]);
    let mut g = shared::create_test_group(gid.clone());
    g.nostr_group_id = [1; 32];
    g.epoch = i64::MAX as u64;
    g.last_message_at = Some(Timestamp::from_secs(i64::MAX as u64));
    g.last_message_processed_at = Some(Timestamp::from_secs(0));
    g.last_message_id = Some(EventId::from_byte_array([0; 32]));
    g.self_update_state = SelfUpdateState::CompletedAt(Timestamp::from_secs(i64::MAX as u64));
    g.state = GroupState::Pending;
    s.save_group(g.clone()).unwrap();
    let mut o = shared::create_test_group(other.clone());
    o.nostr_group_id = [2; 32];
    s.save_group(o.clone()).unwrap();

    for i in 0..25u8 {
        s.append_own_leaf_node(gid.inner(), &Blob(vec![i])).unwrap();
        s.append_own_leaf_node(other.inner(), &Blob(vec![100 + i]))
            .unwrap();
    }
    s.write_encryption_epoch_key_pairs(gid.inner(), &Blob(vec![]), u32::MAX, &[Blob(vec![1])])
        .unwrap();
    s.write_encryption_epoch_key_pairs(gid.inner(), &Blob(vec![0; 300]), 0, &[] as &[Blob])
        .unwrap();
    s.save_group_exporter_secret(GroupExporterSecret {
        mls_group_id: gid.clone(),
        epoch: i64::MAX as u64,
        secret: Secret::new([9; 32]),
    })
    .unwrap();
    s.save_group_exporter_secret(GroupExporterSecret {
        mls_group_id: gid.clone(),
        epoch: 0,
        secret: Secret::new([0; 32]),
    })
    .unwrap();

    s.create_group_snapshot(&gid, "s").unwrap();

    // later state
    s.delete_own_leaf_nodes(gid.inner()).unwrap();
    s.append_own_leaf_node(gid.inner(), &Blob(vec![77])).unwrap();
    s.append_own_leaf_node(other.inner(), &Blob(vec![200])).unwrap();
    s.delete_encryption_epoch_key_pairs(gid.inner(), &Blob(vec![]), u32::MAX)
        .unwrap();
    s.write_encryption_epoch_key_pairs(gid.inner(), &Blob(vec![1]), 1, &[Blob(vec![2])])
        .unwrap();
    s.save_group_exporter_secret(GroupExporterSecret {
        mls_group_id: gid.clone(),
        epoch: 1,
        secret: Secret::new([1; 32]),
    })
    .unwrap();
    let mut g2 = g.clone();
    g2.nostr_group_id = [3; 32];
    g2.epoch = 1;
    g2.last_message_at = None;
    s.save_group(g2).unwrap();

    s.rollback_group_to_snapshot(&gid, "s").unwrap();

    let leaves: Vec<Blob> = s.own_leaf_nodes(gid.inner()).unwrap();
    assert_eq!(leaves, (0..25u8).map(|i| Blob(vec![i])).collect::<Vec<_>>());
    let leaves_o: Vec<Blob> = s.own_leaf_nodes(other.inner()).unwrap();
    let mut exp: Vec<Blob> = (0..25u8).map(|i| Blob(vec![100 + i])).collect();
    exp.push(Blob(vec![200]));
    assert_eq!(leaves_o, exp);
    let kp: Vec<Blob> = s
        .encryption_epoch_key_pairs(gid.inner(), &Blob(vec![]), u32::MAX)
        .unwrap();
    assert_eq!(kp, vec![Blob(vec![1])]);
    let kp: Vec<Blob> = s
        .encryption_epoch_key_pairs(gid.inner(), &Blob(vec![1]), 1)
        .unwrap();
    assert!(kp.is_empty());
    assert_eq!(s.find_group_by_mls_group_id(&gid).unwrap(), Some(g.clone()));
    assert_eq!(s.find_group_by_nostr_group_id(&[1; 32]).unwrap(), Some(g));
    assert_eq!(s.find_group_by_nostr_group_id(&[3; 32]).unwrap(), None);
    assert_eq!(s.find_group_by_nostr_group_id(&[2; 32]).unwrap(), Some(o));
    assert!(s.get_group_exporter_secret(&gid, 1).unwrap().is_none());
    assert_eq!(
        *s.get_group_exporter_secret(&gid, i64::MAX as u64)
            .unwrap()
            .unwrap()
            .secret,
        [9; 32]
    );
    assert_eq!(
        *s.get_group_exporter_secret(&gid, 0).unwrap().unwrap().secret,
        [0; 32]
    );
}

#[test]
fn q09_edges_many_leaf_nodes_memory() {
    many_leaf_nodes_and_extreme_keys(&MdkMemoryStorage::default());
}
#[test]
fn q09_edges_many_leaf_nodes_sqlite() {
    let (_d, s) = sqlite();
    many_leaf_nodes_and_extreme_keys(&s);
}

// ---------------------------------------------------------------------------------------------

fn odd_names_and_ids<S: MdkStorageProvider>(s: &S) {
    // the empty group id, and ids that are prefixes of one another
    let ids = [
        GroupId::from_slice(&[]),
        GroupId::from_slice(&[0]),
        GroupId::from_slice(&[0, 0]),
        GroupId::from_slice(&[1, 0]), // postcard encoding of [0] is [1,0]
    ];
    let names = ["a", "A", "a\0b", "a\0", "ä", "%", "_", "a_", "123", "1e3", "0x10", " ", "", &"x".repeat(5000)];
    for (i, id) in ids.iter().enumerate() {
        let mut g = shared::create_test_group(id.clone());
        g.nostr_group_id = [i as u8 + 1; 32];
        s.save_group(g).unwrap();
        s.write_tree(id.inner(), &Blob(vec![i as u8])).unwrap();
        s.queue_proposal(id.inner(), &Blob(vec![i as u8]), &Blob(vec![i as u8]))
            .unwrap();
    }
    // per group and name a distinct tree value, snapshot each
    for (i, id) in ids.iter().enumerate() {
        for (j, n) in names.iter().enumerate() {
            s.write_tree(id.inner(), &Blob(vec![i as u8, j as u8])).unwrap();
            s.create_group_snapshot(id, n).unwrap();
        }
        s.write_tree(id.inner(), &Blob(vec![i as u8, 255])).unwrap();
    }
    for id in ids.iter() {
        let mut l: Vec<String> = s
            .list_group_snapshots(id)
            .unwrap()
            .into_iter()
            .map(|(n, _)| n)
            .collect();
        l.sort();
        let mut e: Vec<String> = names.iter().map(|n| n.to_string()).collect();
        e.sort();
        assert_eq!(l, e);
    }
    // roll back group 1 to each name in turn; others stay
    for (j, n) in names.iter().enumerate().rev() {
        s.rollback_group_to_snapshot(&ids[1], n).unwrap();
        let t: Option<Blob> = s.tree(ids[1].inner()).unwrap();
        assert_eq!(t, Some(Blob(vec![1, j as u8])), "name {:?}", n);
        for k in [0usize, 2, 3] {
            let t: Option<Blob> = s.tree(ids[k].inner()).unwrap();
            assert_eq!(t, Some(Blob(vec![k as u8, 255])));
            assert_eq!(s.list_group_snapshots(&ids[k]).unwrap().len(), names.len());
            let p: Vec<(Blob, Blob)> = s.queued_proposals(ids[k].inner()).unwrap();
            assert_eq!(p, vec![(Blob(vec![k as u8]), Blob(vec![k as u8]))]);
        }
        assert_eq!(s.list_group_snapshots(&ids[1]).unwrap().len(), j);
        assert!(s.rollback_group_to_snapshot(&ids[1], n).is_err());
    }
    // release on group 0 removes only the one named
    s.release_group_snapshot(&ids[0], "a").unwrap();
    assert_eq!(
        s.list_group_snapshots(&ids[0]).unwrap().len(),
        names.len() - 1
    );
    assert!(s.rollback_group_to_snapshot(&ids[0], "a").is_err());
    s.rollback_group_to_snapshot(&ids[0], "A").unwrap();
    let t: Option<Blob> = s.tree(ids[0].inner()).unwrap();
    assert_eq!(t, Some(Blob(vec![0, 1])));
    assert_eq!(s.list_group_snapshots(&ids[2]).unwrap().len(), names.len());
}

#[test]
fn q09_edges_odd_names_memory() {
    odd_names_and_ids(&MdkMemoryStorage::default());
}
#[test]
fn q09_edges_odd_names_sqlite() {
    let (_d, s) = sqlite();
    odd_names_and_ids(&s);
}

// ---------------------------------------------------------------------------------------------

fn prune_boundary_and_list_order<S: MdkStorageProvider>(s: &S) {
    let g1 = GroupId::from_slice(&[1; 8]);
    let g2 = GroupId::from_slice(&[2; 8]);
    for (i, id) in [&g1, &g2].iter().enumerate() {
        let mut g = shared::create_test_group((*id).clone());
        g.nostr_group_id = [i as u8 + 1; 32];
        s.save_group(g).unwrap();
    }
    s.write_tree(g1.inner(), &Blob(vec![1])).unwrap();
    s.create_group_snapshot(&g1, "old").unwrap();
    s.create_group_snapshot(&g2, "old").unwrap();
    s.create_group_snapshot(&g1, "retake").unwrap();
    std::thread::sleep(std::time::Duration::from_millis(2100));
    s.write_tree(g1.inner(), &Blob(vec![2])).unwrap();
    s.create_group_snapshot(&g1, "new").unwrap();
    s.create_group_snapshot(&g1, "retake").unwrap();

    let l = s.list_group_snapshots(&g1).unwrap();
    assert_eq!(l.len(), 3);
    assert_eq!(l[0].0, "old");
    let t_old = l[0].1;
    let t_new = l.iter().find(|(n, _)| n == "new").unwrap().1;
    let t_retake = l.iter().find(|(n, _)| n == "retake").unwrap().1;
    assert!(t_new > t_old);
    assert!(t_retake >= t_new, "a retaken snapshot carries the time of the retake");

    // cut-off equal to created_at: strictly older only
    assert_eq!(s.prune_expired_snapshots(t_old).unwrap(), 0);
    assert_eq!(s.list_group_snapshots(&g1).unwrap().len(), 3);
    assert_eq!(s.list_group_snapshots(&g2).unwrap().len(), 1);
    // one above: removes g1/old and g2/old, nothing else
    assert_eq!(s.prune_expired_snapshots(t_old + 1).unwrap(), 2);
    let l = s.list_group_snapshots(&g1).unwrap();
    let mut names: Vec<String> = l.into_iter().map(|(n, _)| n).collect();
    names.sort();
    assert_eq!(names, vec!["new".to_string(), "retake".to_string()]);
    assert!(s.list_group_snapshots(&g2).unwrap().is_empty());
    let t: Option<Blob> = s.tree(g1.inner()).unwrap();
    assert_eq!(t, Some(Blob(vec![2])));
    // retake holds the later state
    s.write_tree(g1.inner(), &Blob(vec![3])).unwrap();
    s.rollback_group_to_snapshot(&g1, "retake").unwrap();
    let t: Option<Blob> = s.tree(g1.inner()).unwrap();
    assert_eq!(t, Some(Blob(vec![2])));
    // "new" survived the rollback with its time
    let l = s.list_group_snapshots(&g1).unwrap();
    assert_eq!(l, vec![("new".to_string(), t_new)]);
    assert_eq!(s.prune_expired_snapshots(u64::MAX).unwrap(), 1);
    assert!(s.list_group_snapshots(&g1).unwrap().is_empty());
}

#[test]
fn q09_edges_prune_memory() {
    prune_boundary_and_list_order(&MdkMemoryStorage::default());
}
#[test]
fn q09_edges_prune_sqlite() {
    let (_d, s) = sqlite();
    prune_boundary_and_list_order(&s);
}

// ---------------------------------------------------------------------------------------------

/// Relays: a group whose record did not change but whose relays did; relays emptied and refilled.
fn relays_only<S: MdkStorageProvider>(s: &S) {
    let gid = GroupId::from_slice(&[7; 8]);
    let mut g = shared::create_test_group(gid.clone());
    g.nostr_group_id = [7; 32];
    s.save_group(g.clone()).unwrap();
    let r = |u: &str| RelayUrl::parse(u).unwrap();
    let many: BTreeSet<RelayUrl> = (0..15).map(|i| r(&format!("wss://r{i}.example.com"))).collect();
    s.replace_group_relays(&gid, many.clone()).unwrap();
    s.create_group_snapshot(&gid, "full").unwrap();
    s.replace_group_relays(&gid, BTreeSet::new()).unwrap();
    s.create_group_snapshot(&gid, "empty").unwrap();
    s.replace_group_relays(&gid, BTreeSet::from([r("wss://late.example.com")]))
        .unwrap();
    s.rollback_group_to_snapshot(&gid, "empty").unwrap();
    assert!(s.group_relays(&gid).unwrap().is_empty());
    s.rollback_group_to_snapshot(&gid, "full").unwrap();
    let got: BTreeSet<RelayUrl> = s
        .group_relays(&gid)
        .unwrap()
        .into_iter()
        .map(|gr| {
            assert_eq!(gr.mls_group_id, gid);
            gr.relay_url
        })
        .collect();
    assert_eq!(got, many);
    assert_eq!(s.find_group_by_mls_group_id(&gid).unwrap(), Some(g));
}

#[test]
fn q09_edges_relays_memory() {
    relays_only(&MdkMemoryStorage::default());
}
#[test]
fn q09_edges_relays_sqlite() {
    let (_d, s) = sqlite();
    relays_only(&s);
}

// ---------------------------------------------------------------------------------------------

/// While one thread snapshots / mutates / rolls back group G, another thread keeps writing and
/// reading group H (whose id extends G's): H always reads back what it wrote last, and G ends
/// every round in its snapshot state.
fn threads_isolation<S: MdkStorageProvider + Sync>(s: &S, rounds: usize) {
    let g = GroupId::from_slice(&[1, 2, 3]);
    let h = GroupId::from_slice(&[1, 2, 3, 4]);
    for (i, id) in [&g, &h].iter().enumerate() {
        let mut grp = shared::create_test_group((*id).clone());
        grp.nostr_group_id = [i as u8 + 1; 32];
        s.save_group(grp).unwrap();
    }
    let stop = std::sync::atomic::AtomicBool::new(false);
    std::thread::scope(|sc| {
        sc.spawn(|| {
            let mut i: u32 = 0;
            while !stop.load(std::sync::atomic::Ordering::Relaxed) {
                i += 1;
                let b = Blob(i.to_le_bytes().to_vec());
                s.write_tree(h.inner(), &b).unwrap();
                s.queue_proposal(h.inner(), &Blob(vec![1]), &b).unwrap();
                s.write_encryption_epoch_key_pairs(h.inner(), &Blob(vec![0]), 0, &[b.clone()])
                    .unwrap();
                s.save_group_exporter_secret(GroupExporterSecret {
                    mls_group_id: h.clone(),
                    epoch: 0,
                    secret: Secret::new([i as u8; 32]),
                })
                .unwrap();
                let t: Option<Blob> = s.tree(h.inner()).unwrap();
                assert_eq!(t, Some(b.clone()));
                let p: Vec<(Blob, Blob)> = s.queued_proposals(h.inner()).unwrap();
                assert_eq!(p, vec![(Blob(vec![1]), b.clone())]);
                let k: Vec<Blob> = s
                    .encryption_epoch_key_pairs(h.inner(), &Blob(vec![0]), 0)
                    .unwrap();
                assert_eq!(k, vec![b]);
                assert_eq!(
                    *s.get_group_exporter_secret(&h, 0).unwrap().unwrap().secret,
                    [i as u8; 32]
                );
                assert!(s.find_group_by_mls_group_id(&h).unwrap().is_some());
            }
        });
        for r in 0..rounds {
            let b = Blob(vec![r as u8]);
            s.write_tree(g.inner(), &b).unwrap();
            s.create_group_snapshot(&g, "s").unwrap();
            s.write_tree(g.inner(), &Blob(vec![255, r as u8])).unwrap();
            s.queue_proposal(g.inner(), &Blob(vec![1]), &b).unwrap();
            s.append_own_leaf_node(g.inner(), &b).unwrap();
            s.rollback_group_to_snapshot(&g, "s").unwrap();
            let t: Option<Blob> = s.tree(g.inner()).unwrap();
            assert_eq!(t, Some(b));
            let p: Vec<(Blob, Blob)> = s.queued_proposals(g.inner()).unwrap();
            assert!(p.is_empty());
            let l: Vec<Blob> = s.own_leaf_nodes(g.inner()).unwrap();
            assert!(l.is_empty());
        }
        stop.store(true, std::sync::atomic::Ordering::Relaxed);
    });
}

#[test]
fn q09_edges_threads_memory() {
    threads_isolation(&MdkMemoryStorage::default(), 3000);
}
#[test]
fn q09_edges_threads_sqlite() {
    let (_d, s) = sqlite();
    threads_isolation(&s, 300);
}

// ---------------------------------------------------------------------------------------------

/// The order in which the proposal queue and its refs are read back, around a rollback.
fn proposal_read_order<S: MdkStorageProvider>(s: &S) -> (Vec<Blob>, Vec<Blob>) {
    let g = GroupId::from_slice(&[1, 2, 3]);
    let mut grp = shared::create_test_group(g.clone());
    grp.nostr_group_id = [1; 32];
    s.save_group(grp).unwrap();
    for r in [9u8, 10, 1, 200, 33, 2, 100, 19, 90] {
        s.queue_proposal(g.inner(), &Blob(vec![r]), &Blob(vec![r])).unwrap();
    }
    let before: Vec<Blob> = s.queued_proposal_refs(g.inner()).unwrap();
    let before_p: Vec<(Blob, Blob)> = s.queued_proposals(g.inner()).unwrap();
    assert_eq!(before, before_p.iter().map(|(r, _)| r.clone()).collect::<Vec<_>>());
    s.create_group_snapshot(&g, "s").unwrap();
    s.queue_proposal(g.inner(), &Blob(vec![5]), &Blob(vec![5])).unwrap();
    s.rollback_group_to_snapshot(&g, "s").unwrap();
    let after: Vec<Blob> = s.queued_proposal_refs(g.inner()).unwrap();
    (before, after)
}

#[test]
fn q09_edges_proposal_order_sqlite() {
    let (_d, s) = sqlite();
    let (before, after) = proposal_read_order(&s);
    eprintln!("sqlite before: {:?}\nsqlite after:  {:?}", before, after);
    assert_eq!(before, after);
}

#[test]
fn q09_edges_proposal_order_memory() {
    let (before, after) = proposal_read_order(&MdkMemoryStorage::default());
    eprintln!("memory before: {:?}\nmemory after:  {:?}", before, after);
    let mut b = before.clone();
    let mut a = after.clone();
    b.sort();
    a.sort();
    assert_eq!(a, b);
    if before != after {
        eprintln!("NOTE: memory backend reads the proposal queue back in a different order after a rollback (HashMap order)");
    }
}
