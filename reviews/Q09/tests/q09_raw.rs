//! Q09 / C09: raw table comparison (storage classes and bytes) around a snapshot / rollback.

use std::collections::{BTreeMap, BTreeSet};

use mdk_sqlite_storage::MdkSqliteStorage;
use mdk_storage_traits::groups::GroupStorage;
use mdk_storage_traits::groups::types::{
    Group, GroupExporterSecret, GroupState, SelfUpdateState,
};
use mdk_storage_traits::{GroupId, MdkStorageProvider, Secret};
use nostr::{EventId, RelayUrl, Timestamp};
use openmls_traits::storage::{Entity, Key, StorageProvider, traits};
use rusqlite::Connection;
use serde::{Deserialize, Serialize};

#[derive(Debug, Clone, PartialEq, Eq, PartialOrd, Ord, Serialize, Deserialize)]
struct Blob(Vec<u8>);
impl Key<1> for Blob {}
impl Entity<1> for Blob {}
impl traits::EpochKey<1> for Blob {}
impl traits::QueuedProposal<1> for Blob {}
impl traits::TreeSync<1> for Blob {}
impl traits::GroupContext<1> for Blob {}
impl traits::InterimTranscriptHash<1> for Blob {}
impl traits::ConfirmationTag<1> for Blob {}
impl traits::HpkeKeyPair<1> for Blob {}
impl traits::GroupState<1> for Blob {}
impl traits::GroupEpochSecrets<1> for Blob {}
impl traits::LeafNodeIndex<1> for Blob {}
impl traits::MessageSecrets<1> for Blob {}
impl traits::ResumptionPskStore<1> for Blob {}
impl traits::MlsGroupJoinConfig<1> for Blob {}
impl traits::LeafNode<1> for Blob {}
impl traits::ProposalRef<1> for Blob {}

fn raw_dump(path: &std::path::Path) -> BTreeMap<String, Vec<String>> {
    let conn = Connection::open(path).unwrap();
    let tables: Vec<String> = conn
        .prepare("SELECT name FROM sqlite_master WHERE type='table' AND name NOT LIKE 'sqlite_%' AND name NOT LIKE 'refinery%' AND name != 'group_state_snapshots'")
        .unwrap()
        .query_map([], |r| r.get(0))
        .unwrap()
        .map(|r| r.unwrap())
        .collect();
    let mut out = BTreeMap::new();
    for t in tables {
        let cols: Vec<String> = conn
            .prepare(&format!("PRAGMA table_info({t})"))
            .unwrap()
            .query_map([], |r| r.get::<_, String>(1))
            .unwrap()
            .map(|r| r.unwrap())
            .collect();
        let has_id = cols.iter().any(|c| c == "id") && (t == "openmls_own_leaf_nodes" || t == "group_relays");
        let sel: Vec<String> = cols
            .iter()
            .filter(|c| !(has_id && *c == "id"))
            .map(|c| format!("'{c}=' || typeof({c}) || ':' || coalesce(hex({c}), 'NULL')"))
            .collect();
        let order = if t == "openmls_own_leaf_nodes" { "ORDER BY group_id, id" } else { "" };
        let q = format!("SELECT {} FROM {t} {order}", sel.join(" || ' ' || "));
        let mut rows: Vec<String> = conn
            .prepare(&q)
            .unwrap()
            .query_map([], |r| r.get::<_, String>(0))
            .unwrap()
            .map(|r| r.unwrap())
            .collect();
        if t != "openmls_own_leaf_nodes" {
            rows.sort();
        }
        out.insert(t, rows);
    }
    out
}

fn fill(s: &MdkSqliteStorage, gid: &GroupId, tag: u8, numeric_names: bool) {
    let m = gid.inner();
    let g = Group {
        mls_group_id: gid.clone(),
        nostr_group_id: [tag; 32],
        name: if numeric_names { "123".into() } else { format!("n{tag}") },
        description: if numeric_names { "1e3".into() } else { "".into() },
        admin_pubkeys: BTreeSet::new(),
        last_message_id: Some(EventId::from_byte_array([tag; 32])),
        last_message_at: Some(Timestamp::from_secs(tag as u64)),
        last_message_processed_at: None,
        epoch: tag as u64,
        state: GroupState::Active,
        image_hash: Some([tag; 32]),
        image_key: Some(Secret::new([tag; 32])),
        image_nonce: Some(Secret::new([tag; 12])),
        self_update_state: SelfUpdateState::CompletedAt(Timestamp::from_secs(5)),
    };
    s.save_group(g).unwrap();
    s.replace_group_relays(
        gid,
        (0..12)
            .map(|i| RelayUrl::parse(&format!("wss://r{i}-{tag}.example.com")).unwrap())
            .collect(),
    )
    .unwrap();
    for e in 0..3 {
        s.save_group_exporter_secret(GroupExporterSecret {
            mls_group_id: gid.clone(),
            epoch: e,
            secret: Secret::new([tag + e as u8; 32]),
        })
        .unwrap();
    }
    let b = Blob(vec![tag; 5]);
    s.write_mls_join_config(m, &b).unwrap();
    s.write_tree(m, &b).unwrap();
    s.write_interim_transcript_hash(m, &b).unwrap();
    s.write_context(m, &b).unwrap();
    s.write_confirmation_tag(m, &b).unwrap();
    s.write_group_state(m, &b).unwrap();
    s.write_message_secrets(m, &b).unwrap();
    s.write_resumption_psk_store(m, &b).unwrap();
    s.write_own_leaf_index(m, &b).unwrap();
    s.write_group_epoch_secrets(m, &b).unwrap();
    for i in 0..12u8 {
        s.append_own_leaf_node(m, &Blob(vec![tag, i])).unwrap();
        s.queue_proposal(m, &Blob(vec![i]), &Blob(vec![tag, i])).unwrap();
    }
    for e in 0..3u8 {
        for l in 0..3u32 {
            s.write_encryption_epoch_key_pairs(m, &Blob(vec![e]), l, &[Blob(vec![tag, e, l as u8])])
                .unwrap();
        }
    }
}

fn run(numeric_names: bool, reopen: bool) {
    let dir = tempfile::tempdir().unwrap();
    let path = dir.path().join("raw.db");
    let mut s = MdkSqliteStorage::new_unencrypted(&path).unwrap();
    let g = GroupId::from_slice(&[1, 2, 3]);
    let h = GroupId::from_slice(&[1, 2, 3, 4]);
    fill(&s, &g, 10, numeric_names);
    fill(&s, &h, 20, numeric_names);
    let d0 = raw_dump(&path);
    s.create_group_snapshot(&g, "s").unwrap();
    assert_eq!(d0, raw_dump(&path), "snapshot changed tables");
    if reopen {
        drop(s);
        s = MdkSqliteStorage::new_unencrypted(&path).unwrap();
    }
    // mutate everything of g
    fill(&s, &g, 30, !numeric_names);
    s.delete_tree(g.inner()).unwrap();
    s.save_group_exporter_secret(GroupExporterSecret {
        mls_group_id: g.clone(),
        epoch: 9,
        secret: Secret::new([1; 32]),
    })
    .unwrap();
    s.write_encryption_epoch_key_pairs(g.inner(), &Blob(vec![9]), 9, &[Blob(vec![9])])
        .unwrap();
    assert_ne!(d0, raw_dump(&path));
    s.rollback_group_to_snapshot(&g, "s").unwrap();
    let d2 = raw_dump(&path);
    for (t, rows) in &d0 {
        assert_eq!(rows, &d2[t], "table {t} differs after rollback");
    }
    assert_eq!(d0, d2);
}

#[test]
fn q09_raw_plain() {
    run(false, false);
}
#[test]
fn q09_raw_numeric_looking_text() {
    run(true, false);
}
#[test]
fn q09_raw_reopen() {
    run(true, true);
}
