//! Q09 / property C09: a rollback restores exactly one group's state and changes nothing else.
//!
//! Randomised frame test: a model records, at every `create_group_snapshot`, the dump of the
//! group's rollback-relevant state. At every `rollback_group_to_snapshot` the full dump of
//! everything readable must equal the dump before the rollback with that group's part replaced
//! by the recorded one and the snapshot removed from the list. Run on both backends; the SQLite
//! run closes and reopens the file at random points.

use std::collections::{BTreeMap, BTreeSet};

use mdk_memory_storage::MdkMemoryStorage;
use mdk_sqlite_storage::MdkSqliteStorage;
use mdk_storage_traits::groups::types::{
    Group, GroupExporterSecret, GroupState, SelfUpdateState,
};
use mdk_storage_traits::messages::types::{MessageState, ProcessedMessageState};
use mdk_storage_traits::{GroupId, MdkStorageProvider, Secret};
use nostr::{EventId, PublicKey, RelayUrl, Timestamp};
use openmls_traits::storage::{Entity, Key, traits};
use serde::{Deserialize, Serialize};

mod shared;

// ---------------------------------------------------------------------------------------------
// OpenMLS entity / key stand-ins
// ---------------------------------------------------------------------------------------------

#[derive(Debug, Clone, PartialEq, Eq, PartialOrd, Ord, Serialize, Deserialize)]
struct Blob(Vec<u8>);

impl Key<1> for Blob {}
impl Entity<1> for Blob {}
impl traits::SignaturePublicKey<1> for Blob {}
impl traits::HashReference<1> for Blob {}
impl traits::PskId<1> for Blob {}
impl traits::EncryptionKey<1> for Blob {}
impl traits::EpochKey<1> for Blob {}
impl traits::QueuedProposal<1> for Blob {}
impl traits::TreeSync<1> for Blob {}
impl traits::GroupContext<1> for Blob {}
impl traits::InterimTranscriptHash<1> for Blob {}
impl traits::ConfirmationTag<1> for Blob {}
impl traits::SignatureKeyPair<1> for Blob {}
impl traits::PskBundle<1> for Blob {}
impl traits::HpkeKeyPair<1> for Blob {}
impl traits::GroupState<1> for Blob {}
impl traits::GroupEpochSecrets<1> for Blob {}
impl traits::LeafNodeIndex<1> for Blob {}
impl traits::MessageSecrets<1> for Blob {}
impl traits::ResumptionPskStore<1> for Blob {}
impl traits::KeyPackage<1> for Blob {}
impl traits::MlsGroupJoinConfig<1> for Blob {}
impl traits::LeafNode<1> for Blob {}
impl traits::ProposalRef<1> for Blob {}

type MlsGid = openmls::group::GroupId;

// ---------------------------------------------------------------------------------------------
// PRNG
// ---------------------------------------------------------------------------------------------

struct Rng(u64);
impl Rng {
    fn next(&mut self) -> u64 {
        // splitmix64
        self.0 = self.0.wrapping_add(0x9E3779B97F4A7C15);
        let mut z = self.0;
        z = (z ^ (z >> 30)).wrapping_mul(0xBF58476D1CE4E5B9);
        z = (z ^ (z >> 27)).wrapping_mul(0x94D049BB133111EB);
        z ^ (z >> 31)
    }
    fn below(&mut self, n: u64) -> u64 {
        self.next() % n
    }
    fn bytes(&mut self, n: usize) -> Vec<u8> {
        (0..n).map(|_| self.next() as u8).collect()
    }
    fn blob(&mut self) -> Blob {
        let n = self.below(40) as usize;
        Blob(self.bytes(n))
    }
    fn arr32(&mut self) -> [u8; 32] {
        let mut a = [0u8; 32];
        for b in a.iter_mut() {
            *b = self.next() as u8;
        }
        a
    }
}

// ---------------------------------------------------------------------------------------------
// Universe
// ---------------------------------------------------------------------------------------------

const N_EPOCHS: u64 = 5;
const N_LEAVES: u32 = 3;
const SNAP_NAMES: &[&str] = &["a", "b", "snap_1", "snap_1_x", "", "snap 1"];
const RELAYS: &[&str] = &[
    "wss://r1.example.com",
    "wss://r2.example.com",
    "wss://r3.example.com/path",
    "ws://r4.example.com:8080",
    "wss://r5.example.com",
];

fn group_ids() -> Vec<GroupId> {
    vec![
        GroupId::from_slice(&[1, 2, 3]),
        GroupId::from_slice(&[1, 2, 3, 4]),
        GroupId::from_slice(&[0xAA; 32]),
        GroupId::from_slice(&[3, 1, 2, 3]), // postcard encoding of g0 is [3,1,2,3]
    ]
}

fn proposal_refs() -> Vec<Blob> {
    vec![
        Blob(vec![1]),
        Blob(vec![1, 2]),
        Blob(vec![2]),
        Blob(vec![9; 32]),
        Blob(vec![]),
    ]
}

fn global_keys() -> Vec<Blob> {
    vec![
        Blob(vec![1, 2, 3]),
        Blob(vec![1, 2, 3, 4]),
        Blob(vec![0xAA; 32]),
        Blob(vec![7]),
    ]
}

fn event_ids() -> Vec<EventId> {
    (1u8..=6).map(|i| EventId::from_byte_array([i; 32])).collect()
}

fn hex(b: &[u8]) -> String {
    b.iter().map(|x| format!("{:02x}", x)).collect()
}

// ---------------------------------------------------------------------------------------------
// Dump
// ---------------------------------------------------------------------------------------------

type Dump = BTreeMap<String, String>;

fn fmt_group(g: &Option<Group>) -> String {
    match g {
        None => "None".into(),
        Some(g) => format!(
            "{:?} key={:?} nonce={:?}",
            g,
            g.image_key.as_ref().map(|k| hex(&k[..])),
            g.image_nonce.as_ref().map(|k| hex(&k[..]))
        ),
    }
}

/// The rollback-relevant state of one group (prefix "G<i>/R/").
fn dump_group_rollback_part<S: MdkStorageProvider>(s: &S, i: usize, gid: &GroupId, out: &mut Dump) {
    let p = format!("G{}/R/", i);
    let m: &MlsGid = gid.inner();
    let grp = s.find_group_by_mls_group_id(gid).unwrap();
    out.insert(format!("{p}group"), fmt_group(&grp));
    if let Some(g) = &grp {
        // routing entry
        out.insert(
            format!("{p}by_nostr"),
            fmt_group(&s.find_group_by_nostr_group_id(&g.nostr_group_id).unwrap()),
        );
    }
    out.insert(format!("{p}relays"), format!("{:?}", s.group_relays(gid)));
    out.insert(format!("{p}admins"), format!("{:?}", s.admins(gid)));
    for e in 0..N_EPOCHS {
        let v = s
            .get_group_exporter_secret(gid, e)
            .map(|o| o.map(|x| (x.mls_group_id.clone(), x.epoch, hex(&x.secret[..]))));
        out.insert(format!("{p}exporter/{e}"), format!("{:?}", v));
    }
    macro_rules! gd {
        ($name:literal, $f:ident) => {{
            let v: Option<Blob> = s.$f(m).unwrap();
            out.insert(format!("{p}mls/{}", $name), format!("{:?}", v));
        }};
    }
    gd!("join_config", mls_group_join_config);
    gd!("tree", tree);
    gd!("interim", interim_transcript_hash);
    gd!("context", group_context);
    gd!("conf_tag", confirmation_tag);
    {
        let v: Option<Blob> = s.group_state(m).unwrap();
        out.insert(format!("{p}mls/group_state"), format!("{:?}", v));
    }
    gd!("message_secrets", message_secrets);
    gd!("resumption", resumption_psk_store);
    gd!("own_leaf_index", own_leaf_index);
    gd!("epoch_secrets", group_epoch_secrets);
    let leaves: Vec<Blob> = s.own_leaf_nodes(m).unwrap();
    out.insert(format!("{p}mls/own_leaf_nodes"), format!("{:?}", leaves));
    let mut refs: Vec<Blob> = s.queued_proposal_refs(m).unwrap();
    refs.sort();
    out.insert(format!("{p}mls/proposal_refs"), format!("{:?}", refs));
    let mut props: Vec<(Blob, Blob)> = s.queued_proposals(m).unwrap();
    props.sort();
    out.insert(format!("{p}mls/proposals"), format!("{:?}", props));
    for e in 0..N_EPOCHS {
        for l in 0..N_LEAVES {
            let v: Vec<Blob> = s
                .encryption_epoch_key_pairs(m, &Blob(vec![e as u8]), l)
                .unwrap();
            out.insert(format!("{p}mls/ekp/{e}/{l}"), format!("{:?}", v));
        }
    }
}

/// Everything readable.
fn dump_all<S: MdkStorageProvider>(s: &S) -> Dump {
    let mut out = Dump::new();
    let gids = group_ids();
    for (i, gid) in gids.iter().enumerate() {
        dump_group_rollback_part(s, i, gid, &mut out);
        // not rollback-relevant, but of the group
        let msgs = s.messages(gid, None);
        out.insert(format!("G{i}/N/messages"), format!("{:?}", msgs));
        for ev in event_ids() {
            out.insert(
                format!("G{i}/N/msg/{}", ev.to_hex()),
                format!("{:?}", s.find_message_by_event_id(gid, &ev)),
            );
        }
        // unordered lists: sorted
        out.insert(
            format!("G{i}/N/invalidated"),
            format!(
                "{:?}",
                s.find_invalidated_messages(gid).map(|mut v| {
                    v.sort();
                    v
                })
            ),
        );
        out.insert(
            format!("G{i}/N/invalidated_pm"),
            format!(
                "{:?}",
                s.find_invalidated_processed_messages(gid).map(|mut v| {
                    v.sort_by_key(|p| p.wrapper_event_id);
                    v
                })
            ),
        );
        out.insert(
            format!("G{i}/N/failed_retry"),
            format!(
                "{:?}",
                s.find_failed_messages_for_retry(gid).map(|mut v| {
                    v.sort();
                    v
                })
            ),
        );
        let mut snaps: Vec<String> = s
            .list_group_snapshots(gid)
            .unwrap()
            .into_iter()
            .map(|(n, _)| n)
            .collect();
        snaps.sort();
        out.insert(format!("G{i}/N/snapshots"), format!("{:?}", snaps));
    }
    let mut all: Vec<Group> = s.all_groups().unwrap();
    all.sort();
    out.insert(
        "X/all_groups".into(),
        format!("{:?}", all.iter().map(|g| fmt_group(&Some(g.clone()))).collect::<Vec<_>>()),
    );
    for ev in event_ids() {
        out.insert(
            format!("X/pm/{}", ev.to_hex()),
            format!("{:?}", s.find_processed_message_by_event_id(&ev)),
        );
        out.insert(
            format!("X/welcome/{}", ev.to_hex()),
            format!("{:?}", s.find_welcome_by_event_id(&ev)),
        );
        out.insert(
            format!("X/pw/{}", ev.to_hex()),
            format!("{:?}", s.find_processed_welcome_by_event_id(&ev)),
        );
    }
    let mut pending = s.pending_welcomes(None).unwrap();
    pending.sort();
    out.insert("X/pending_welcomes".into(), format!("{:?}", pending));
    for k in global_keys() {
        let kp: Option<Blob> = s.key_package(&k).unwrap();
        out.insert(format!("X/kp/{}", hex(&k.0)), format!("{:?}", kp));
        let sk: Option<Blob> = s.signature_key_pair(&k).unwrap();
        out.insert(format!("X/sig/{}", hex(&k.0)), format!("{:?}", sk));
        let ek: Option<Blob> = s.encryption_key_pair(&k).unwrap();
        out.insert(format!("X/enc/{}", hex(&k.0)), format!("{:?}", ek));
        let psk: Option<Blob> = s.psk(&k).unwrap();
        out.insert(format!("X/psk/{}", hex(&k.0)), format!("{:?}", psk));
    }
    out
}

fn rollback_part(d: &Dump, i: usize) -> Dump {
    let p = format!("G{}/R/", i);
    d.iter()
        .filter(|(k, _)| k.starts_with(&p))
        .map(|(k, v)| (k.clone(), v.clone()))
        .collect()
}

fn diff(expected: &Dump, actual: &Dump) -> Vec<String> {
    let mut v = Vec::new();
    let keys: BTreeSet<&String> = expected.keys().chain(actual.keys()).collect();
    for k in keys {
        let e = expected.get(k);
        let a = actual.get(k);
        if e != a {
            v.push(format!("  {k}\n     expected: {:?}\n     actual:   {:?}", e, a));
        }
    }
    v
}

// ---------------------------------------------------------------------------------------------
// Ops
// ---------------------------------------------------------------------------------------------

fn pk(i: u8) -> PublicKey {
    // x-only keys: use nostr Keys derived from a fixed secret
    let sk = nostr::SecretKey::from_slice(&[i.max(1); 32]).unwrap();
    nostr::Keys::new(sk).public_key()
}

fn random_group(rng: &mut Rng, gid: &GroupId, idx: usize, keep_nostr: Option<[u8; 32]>) -> Group {
    let nostr_group_id = match keep_nostr {
        Some(n) if rng.below(4) != 0 => n,
        _ => {
            if std::env::var("Q09_COLLIDE").is_ok() {
                // small shared pool: groups compete for Nostr ids
                [rng.below(6) as u8; 32]
            } else {
                let mut a = rng.arr32();
                a[0] = idx as u8; // never collides with another group's ids
                a
            }
        }
    };
    let mut admins = BTreeSet::new();
    for _ in 0..rng.below(3) {
        admins.insert(pk(rng.below(5) as u8 + 1));
    }
    let names = ["", "Test", "123", "1e5", "na\u{0}me", "x'y\"z", "[1,2]"];
    Group {
        mls_group_id: gid.clone(),
        nostr_group_id,
        name: names[rng.below(names.len() as u64) as usize].to_string(),
        description: names[rng.below(names.len() as u64) as usize].to_string(),
        admin_pubkeys: admins,
        last_message_id: if rng.below(2) == 0 {
            None
        } else {
            Some(EventId::from_byte_array(rng.arr32()))
        },
        last_message_at: if rng.below(2) == 0 {
            None
        } else {
            Some(Timestamp::from_secs(rng.below(1 << 40)))
        },
        last_message_processed_at: if rng.below(2) == 0 {
            None
        } else {
            Some(Timestamp::from_secs(rng.below(1 << 40)))
        },
        epoch: rng.below(N_EPOCHS),
        state: [GroupState::Active, GroupState::Inactive, GroupState::Pending]
            [rng.below(3) as usize],
        image_hash: if rng.below(2) == 0 { None } else { Some(rng.arr32()) },
        image_key: if rng.below(2) == 0 {
            None
        } else {
            Some(Secret::new(rng.arr32()))
        },
        image_nonce: if rng.below(2) == 0 {
            None
        } else {
            let mut n = [0u8; 12];
            n.copy_from_slice(&rng.bytes(12));
            Some(Secret::new(n))
        },
        self_update_state: if rng.below(2) == 0 {
            SelfUpdateState::Required
        } else {
            SelfUpdateState::CompletedAt(Timestamp::from_secs(1 + rng.below(1 << 40)))
        },
    }
}

struct Model {
    /// (group index, snapshot name) -> rollback part recorded at snapshot time
    snaps: BTreeMap<(usize, String), Dump>,
    log: Vec<String>,
}

fn step<S: MdkStorageProvider>(s: &S, rng: &mut Rng, model: &mut Model, backend: &str, seed: u64) {
    let gids = group_ids();
    let gi = rng.below(gids.len() as u64) as usize;
    let gid = &gids[gi];
    let m: &MlsGid = gid.inner();
    let exists = s.find_group_by_mls_group_id(gid).unwrap();
    let op = rng.below(36);
    macro_rules! log {
        ($($a:tt)*) => { model.log.push(format!($($a)*)) };
    }
    match op {
        0 | 1 => {
            let g = random_group(rng, gid, gi, exists.as_ref().map(|g| g.nostr_group_id));
            log!("save_group(G{gi}, nostr={}, name={:?}, epoch={})", hex(&g.nostr_group_id[..4]), g.name, g.epoch);
            let before = dump_all(s);
            if let Err(e) = s.save_group(g) {
                assert!(std::env::var("Q09_COLLIDE").is_ok(), "save_group failed: {e:?}");
                log!("  -> refused");
                let d = diff(&before, &dump_all(s));
                assert!(d.is_empty(), "[{backend} seed {seed}] refused save_group changed state:\n{}", d.join("\n"));
            }
        }
        2 | 3 => {
            if exists.is_some() {
                let mut set = BTreeSet::new();
                for r in RELAYS {
                    if rng.below(2) == 0 {
                        set.insert(RelayUrl::parse(r).unwrap());
                    }
                }
                log!("replace_group_relays(G{gi}, {:?})", set);
                s.replace_group_relays(gid, set).unwrap();
            }
        }
        4 | 5 => {
            if exists.is_some() {
                let e = rng.below(N_EPOCHS);
                log!("save_group_exporter_secret(G{gi}, {e})");
                s.save_group_exporter_secret(GroupExporterSecret {
                    mls_group_id: gid.clone(),
                    epoch: e,
                    secret: Secret::new(rng.arr32()),
                })
                .unwrap();
            }
        }
        6 => {
            let b = rng.blob();
            let w = rng.below(10);
            log!("write_group_data#{w}(G{gi}, {:?})", b);
            match w {
                0 => s.write_mls_join_config(m, &b).unwrap(),
                1 => s.write_tree(m, &b).unwrap(),
                2 => s.write_interim_transcript_hash(m, &b).unwrap(),
                3 => s.write_context(m, &b).unwrap(),
                4 => s.write_confirmation_tag(m, &b).unwrap(),
                5 => s.write_group_state(m, &b).unwrap(),
                6 => s.write_message_secrets(m, &b).unwrap(),
                7 => s.write_resumption_psk_store(m, &b).unwrap(),
                8 => s.write_own_leaf_index(m, &b).unwrap(),
                _ => s.write_group_epoch_secrets(m, &b).unwrap(),
            }
        }
        7 | 8 | 9 => {
            // burst: write several group data items
            for w in 0..10 {
                if rng.below(2) == 0 {
                    continue;
                }
                let b = rng.blob();
                log!("write_group_data#{w}(G{gi}, {:?})", b);
                match w {
                    0 => s.write_mls_join_config(m, &b).unwrap(),
                    1 => s.write_tree(m, &b).unwrap(),
                    2 => s.write_interim_transcript_hash(m, &b).unwrap(),
                    3 => s.write_context(m, &b).unwrap(),
                    4 => s.write_confirmation_tag(m, &b).unwrap(),
                    5 => s.write_group_state(m, &b).unwrap(),
                    6 => s.write_message_secrets(m, &b).unwrap(),
                    7 => s.write_resumption_psk_store(m, &b).unwrap(),
                    8 => s.write_own_leaf_index(m, &b).unwrap(),
                    _ => s.write_group_epoch_secrets(m, &b).unwrap(),
                }
            }
        }
        10 => {
            let w = rng.below(10);
            log!("delete_group_data#{w}(G{gi})");
            match w {
                0 => s.delete_group_config(m).unwrap(),
                1 => s.delete_tree(m).unwrap(),
                2 => s.delete_interim_transcript_hash(m).unwrap(),
                3 => s.delete_context(m).unwrap(),
                4 => s.delete_confirmation_tag(m).unwrap(),
                5 => s.delete_group_state(m).unwrap(),
                6 => s.delete_message_secrets(m).unwrap(),
                7 => s.delete_all_resumption_psk_secrets(m).unwrap(),
                8 => s.delete_own_leaf_index(m).unwrap(),
                _ => s.delete_group_epoch_secrets(m).unwrap(),
            }
        }
        11 | 12 | 13 => {
            let n = 1 + rng.below(4);
            for _ in 0..n {
                let b = rng.blob();
                log!("append_own_leaf_node(G{gi}, {:?})", b);
                s.append_own_leaf_node(m, &b).unwrap();
            }
        }
        14 => {
            if rng.below(3) == 0 {
                log!("delete_own_leaf_nodes(G{gi})");
                s.delete_own_leaf_nodes(m).unwrap();
            }
        }
        15 | 16 => {
            let refs = proposal_refs();
            let r = &refs[rng.below(refs.len() as u64) as usize];
            let b = rng.blob();
            log!("queue_proposal(G{gi}, {:?}, {:?})", r, b);
            s.queue_proposal(m, r, &b).unwrap();
        }
        17 => {
            let refs = proposal_refs();
            let r = &refs[rng.below(refs.len() as u64) as usize];
            if rng.below(4) == 0 {
                log!("clear_proposal_queue(G{gi})");
                s.clear_proposal_queue::<MlsGid, Blob>(m).unwrap();
            } else {
                log!("remove_proposal(G{gi}, {:?})", r);
                s.remove_proposal(m, r).unwrap();
            }
        }
        18 | 19 => {
            let e = rng.below(N_EPOCHS) as u8;
            let l = rng.below(N_LEAVES as u64) as u32;
            let n = rng.below(3);
            let kps: Vec<Blob> = (0..n).map(|_| rng.blob()).collect();
            log!("write_encryption_epoch_key_pairs(G{gi}, {e}, {l}, {:?})", kps);
            s.write_encryption_epoch_key_pairs(m, &Blob(vec![e]), l, &kps)
                .unwrap();
        }
        20 => {
            let e = rng.below(N_EPOCHS) as u8;
            let l = rng.below(N_LEAVES as u64) as u32;
            log!("delete_encryption_epoch_key_pairs(G{gi}, {e}, {l})");
            s.delete_encryption_epoch_key_pairs(m, &Blob(vec![e]), l)
                .unwrap();
        }
        21 => {
            let keys = global_keys();
            let k = &keys[rng.below(keys.len() as u64) as usize];
            let b = rng.blob();
            let w = rng.below(8);
            log!("global#{w}({:?})", k);
            match w {
                0 => s.write_key_package(k, &b).unwrap(),
                1 => s.write_signature_key_pair(k, &b).unwrap(),
                2 => s.write_encryption_key_pair(k, &b).unwrap(),
                3 => s.write_psk(k, &b).unwrap(),
                4 => s.delete_key_package(k).unwrap(),
                5 => s.delete_signature_key_pair(k).unwrap(),
                6 => s.delete_encryption_key_pair(k).unwrap(),
                _ => s.delete_psk(k).unwrap(),
            }
        }
        22 | 23 => {
            if exists.is_some() {
                let evs = event_ids();
                let ev = evs[rng.below(evs.len() as u64) as usize];
                let mut msg = shared::create_test_message(gid.clone(), ev);
                msg.epoch = Some(rng.below(N_EPOCHS));
                msg.created_at = Timestamp::from_secs(1000 + rng.below(100));
                msg.processed_at = Timestamp::from_secs(1000 + rng.below(100));
                msg.event.created_at = msg.created_at;
                msg.state = [MessageState::Processed, MessageState::Created][rng.below(2) as usize];
                log!("save_message(G{gi}, {})", &ev.to_hex()[..4]);
                s.save_message(msg).unwrap();
            }
        }
        24 => {
            let evs = event_ids();
            let ev = evs[rng.below(evs.len() as u64) as usize];
            let mut pm = shared::create_test_processed_message(ev, Some(ev));
            pm.epoch = Some(rng.below(N_EPOCHS));
            pm.mls_group_id = Some(gid.clone());
            pm.processed_at = Timestamp::from_secs(1000 + rng.below(100));
            pm.state = [
                ProcessedMessageState::Processed,
                ProcessedMessageState::Failed,
                ProcessedMessageState::Created,
            ][rng.below(3) as usize];
            log!("save_processed_message(G{gi}, {})", &ev.to_hex()[..4]);
            s.save_processed_message(pm).unwrap();
        }
        25 => {
            let evs = event_ids();
            let ev = evs[rng.below(evs.len() as u64) as usize];
            if rng.below(2) == 0 {
                log!("save_welcome(G{gi}, {})", &ev.to_hex()[..4]);
                let mut w = shared::create_test_welcome(gid.clone(), ev);
                w.event.created_at = Timestamp::from_secs(1000);
                s.save_welcome(w).unwrap();
            } else {
                log!("save_processed_welcome({})", &ev.to_hex()[..4]);
                let mut pw = shared::create_test_processed_welcome(ev, Some(ev));
                pw.processed_at = Timestamp::from_secs(1000 + rng.below(100));
                s.save_processed_welcome(pw).unwrap();
            }
        }
        26 => {
            if exists.is_some() && rng.below(3) == 0 {
                let e = rng.below(N_EPOCHS);
                log!("invalidate_*_after_epoch(G{gi}, {e})");
                s.invalidate_messages_after_epoch(gid, e).unwrap();
                s.invalidate_processed_messages_after_epoch(gid, e).unwrap();
            }
        }
        27 | 28 | 29 | 30 => {
            if exists.is_some() {
                let name = SNAP_NAMES[rng.below(SNAP_NAMES.len() as u64) as usize];
                log!("create_group_snapshot(G{gi}, {:?})", name);
                let before = dump_all(s);
                s.create_group_snapshot(gid, name).unwrap();
                let after = dump_all(s);
                // a snapshot changes nothing but the snapshot list of that group
                let mut expected = before.clone();
                let mut names: BTreeSet<String> = model
                    .snaps
                    .keys()
                    .filter(|(g, _)| *g == gi)
                    .map(|(_, n)| n.clone())
                    .collect();
                names.insert(name.to_string());
                expected.insert(
                    format!("G{gi}/N/snapshots"),
                    format!("{:?}", names.iter().collect::<Vec<_>>()),
                );
                let d = diff(&expected, &after);
                assert!(
                    d.is_empty(),
                    "[{backend} seed {seed}] create_group_snapshot changed state:\n{}\nHISTORY:\n{}",
                    d.join("\n"),
                    model.log.join("\n")
                );
                model
                    .snaps
                    .insert((gi, name.to_string()), rollback_part(&before, gi));
            }
        }
        31 | 32 | 33 => {
            let mut name = SNAP_NAMES[rng.below(SNAP_NAMES.len() as u64) as usize].to_string();
            let existing: Vec<String> = model
                .snaps
                .keys()
                .filter(|(g, _)| *g == gi)
                .map(|(_, n)| n.clone())
                .collect();
            if !existing.is_empty() && rng.below(5) != 0 {
                name = existing[rng.below(existing.len() as u64) as usize].clone();
            }
            let name = name.as_str();
            let before = dump_all(s);
            let res = s.rollback_group_to_snapshot(gid, name);
            let after = dump_all(s);
            log!("rollback_group_to_snapshot(G{gi}, {:?}) -> {:?}", name, res.is_ok());
            match model.snaps.get(&(gi, name.to_string())).cloned() {
                None => {
                    assert!(
                        res.is_err(),
                        "[{backend} seed {seed}] rollback to a snapshot that does not exist succeeded\nHISTORY:\n{}",
                        model.log.join("\n")
                    );
                    let d = diff(&before, &after);
                    assert!(
                        d.is_empty(),
                        "[{backend} seed {seed}] refused rollback changed state:\n{}\nHISTORY:\n{}",
                        d.join("\n"),
                        model.log.join("\n")
                    );
                }
                Some(part) => {
                    if res.is_err() && std::env::var("Q09_COLLIDE").is_ok() {
                        // refused: the Nostr id of the snapshot must belong to another group now;
                        // nothing changed, the snapshot is kept
                        let nostr_line = part.get(&format!("G{gi}/R/group")).cloned().unwrap_or_default();
                        let taken = gids.iter().enumerate().any(|(j, g)| {
                            j != gi
                                && s.find_group_by_mls_group_id(g).unwrap().is_some_and(|o| {
                                    nostr_line.contains(&format!("nostr_group_id: {:?}", o.nostr_group_id))
                                })
                        });
                        assert!(taken, "[{backend} seed {seed}] rollback refused without a Nostr id conflict: {:?}\nHISTORY:\n{}", res, model.log.join("\n"));
                        let d = diff(&before, &after);
                        assert!(d.is_empty(), "[{backend} seed {seed}] refused rollback changed state:\n{}\nHISTORY:\n{}", d.join("\n"), model.log.join("\n"));
                        return;
                    }
                    if res.is_err() {
                        // refused (e.g. nostr id taken: cannot happen here, ids are per group)
                        panic!(
                            "[{backend} seed {seed}] rollback to an existing snapshot refused: {:?}\nHISTORY:\n{}",
                            res,
                            model.log.join("\n")
                        );
                    }
                    model.snaps.remove(&(gi, name.to_string()));
                    let mut expected = before.clone();
                    let p = format!("G{}/R/", gi);
                    expected.retain(|k, _| !k.starts_with(&p));
                    expected.extend(part.clone());
                    let names: BTreeSet<String> = model
                        .snaps
                        .keys()
                        .filter(|(g, _)| *g == gi)
                        .map(|(_, n)| n.clone())
                        .collect();
                    expected.insert(
                        format!("G{gi}/N/snapshots"),
                        format!("{:?}", names.iter().collect::<Vec<_>>()),
                    );
                    // all_groups is derived: recompute from the expected per-group records
                    expected.remove("X/all_groups");
                    let mut after_cmp = after.clone();
                    after_cmp.remove("X/all_groups");
                    let d = diff(&expected, &after_cmp);
                    assert!(
                        d.is_empty(),
                        "[{backend} seed {seed}] rollback did not restore exactly / changed something else:\n{}\nHISTORY:\n{}",
                        d.join("\n"),
                        model.log.join("\n")
                    );
                    // all_groups consistent with per-group lookups
                    let mut all: Vec<Group> = s.all_groups().unwrap();
                    all.sort();
                    let mut per: Vec<Group> = gids
                        .iter()
                        .filter_map(|g| s.find_group_by_mls_group_id(g).unwrap())
                        .collect();
                    per.sort();
                    assert_eq!(all, per, "[{backend} seed {seed}] all_groups differs from lookups");
                }
            }
        }
        34 => {
            let name = SNAP_NAMES[rng.below(SNAP_NAMES.len() as u64) as usize];
            log!("release_group_snapshot(G{gi}, {:?})", name);
            let before = dump_all(s);
            s.release_group_snapshot(gid, name).unwrap();
            let after = dump_all(s);
            model.snaps.remove(&(gi, name.to_string()));
            let mut expected = before;
            let names: BTreeSet<String> = model
                .snaps
                .keys()
                .filter(|(g, _)| *g == gi)
                .map(|(_, n)| n.clone())
                .collect();
            expected.insert(
                format!("G{gi}/N/snapshots"),
                format!("{:?}", names.iter().collect::<Vec<_>>()),
            );
            let d = diff(&expected, &after);
            assert!(
                d.is_empty(),
                "[{backend} seed {seed}] release changed state:\n{}\nHISTORY:\n{}",
                d.join("\n"),
                model.log.join("\n")
            );
        }
        _ => {
            if rng.below(6) == 0 {
                // prune with a cut-off of 0 or 1: nothing is that old
                log!("prune_expired_snapshots(1)");
                let before = dump_all(s);
                let n = s.prune_expired_snapshots(1).unwrap();
                assert_eq!(n, 0);
                let after = dump_all(s);
                assert!(diff(&before, &after).is_empty());
            }
        }
    }
}

fn run_memory(seed: u64, steps: usize) {
    let s = MdkMemoryStorage::default();
    let mut rng = Rng(seed);
    let mut model = Model {
        snaps: BTreeMap::new(),
        log: Vec::new(),
    };
    for _ in 0..steps {
        step(&s, &mut rng, &mut model, "memory", seed);
    }
    if std::env::var("Q09_STATS").is_ok() {
        let ok = model.log.iter().filter(|l| l.starts_with("rollback") && l.ends_with("true")).count();
        let refused = model.log.iter().filter(|l| l.starts_with("rollback") && l.ends_with("false")).count();
        let snaps = model.log.iter().filter(|l| l.starts_with("create_group_snapshot")).count();
        eprintln!("seed {seed}: {} ops, {snaps} snapshots, {ok} rollbacks done, {refused} refused", model.log.len());
    }
}

fn run_sqlite(seed: u64, steps: usize) {
    let dir = tempfile::tempdir().unwrap();
    let path = dir.path().join("q09.db");
    let mut s = MdkSqliteStorage::new_unencrypted(&path).unwrap();
    let mut rng = Rng(seed);
    // a second, independent stream decides the reopen points, so that both backends see the
    // same operation sequence for one seed
    let mut rng2 = Rng(seed ^ 0xDEADBEEF);
    let mut model = Model {
        snaps: BTreeMap::new(),
        log: Vec::new(),
    };
    for _ in 0..steps {
        step(&s, &mut rng, &mut model, "sqlite", seed);
        if rng2.below(10) == 0 {
            let before = dump_all(&s);
            drop(s);
            s = MdkSqliteStorage::new_unencrypted(&path).unwrap();
            model.log.push("reopen".into());
            let after = dump_all(&s);
            let d = diff(&before, &after);
            assert!(
                d.is_empty(),
                "[sqlite seed {seed}] reopen changed state:\n{}\nHISTORY:\n{}",
                d.join("\n"),
                model.log.join("\n")
            );
        }
    }
}

fn seeds() -> Vec<u64> {
    match std::env::var("Q09_SEEDS") {
        Ok(v) => {
            let n: u64 = v.parse().unwrap();
            (1..=n).collect()
        }
        Err(_) => (1..=40).collect(),
    }
}

fn steps() -> usize {
    std::env::var("Q09_STEPS")
        .ok()
        .and_then(|v| v.parse().ok())
        .unwrap_or(250)
}

#[test]
fn q09_frame_memory() {
    for seed in seeds() {
        run_memory(seed, steps());
    }
}

#[test]
fn q09_frame_sqlite() {
    for seed in seeds() {
        run_sqlite(seed, steps());
    }
}

/// Both backends, same operation sequence: the logs (incl. which rollbacks were done) and the
/// final dumps agree.
#[test]
fn q09_frame_cross() {
    for seed in seeds() {
        let mem = MdkMemoryStorage::default();
        let dir = tempfile::tempdir().unwrap();
        let sql = MdkSqliteStorage::new_unencrypted(dir.path().join("x.db")).unwrap();
        let mut r1 = Rng(seed);
        let mut r2 = Rng(seed);
        let mut m1 = Model { snaps: BTreeMap::new(), log: Vec::new() };
        let mut m2 = Model { snaps: BTreeMap::new(), log: Vec::new() };
        for i in 0..steps() {
            step(&mem, &mut r1, &mut m1, "memory", seed);
            step(&sql, &mut r2, &mut m2, "sqlite", seed);
            assert_eq!(m1.log, m2.log, "seed {seed} step {i}: logs diverge");
            if i % 10 == 0 {
                // Debug of nostr::Kind differs for equal kinds (Custom(444) == MlsWelcome)
                let norm = |d: Dump| -> Dump {
                    d.into_iter()
                        .map(|(k, v)| {
                            (
                                k,
                                v.replace("Custom(444)", "MlsWelcome")
                                    .replace("Custom(445)", "MlsGroupMessage"),
                            )
                        })
                        .collect()
                };
                let d = diff(&norm(dump_all(&mem)), &norm(dump_all(&sql)));
                assert!(
                    d.is_empty(),
                    "seed {seed} step {i}: backends differ (expected = memory):\n{}\nHISTORY:\n{}",
                    d.join("\n"),
                    m1.log.join("\n")
                );
            }
        }
    }
}
