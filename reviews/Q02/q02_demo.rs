//! C02 demonstration.
//!
//! Two admins commit concurrently in epoch E. Alice's commit A removes Carol; Bob's commit B (a
//! self-update, created one second earlier, so it wins under MIP-03) keeps her. Carol is handed A
//! first and B second - both are commits of epoch E, which she has reached. The library applies A
//! (Carol is evicted, group Inactive) and then refuses the better commit B with "use after
//! eviction" before the better-candidate check is ever consulted, although the snapshot taken
//! before A is there. Everybody else converges on B, where Carol IS a member of epoch E+1, but
//! Carol never stores the application messages of the winning branch, and her own message of the
//! fork-point epoch E is never confirmed when it returns from the relay.
mod q02_common;
use q02_common::*;

use mdk_core::MdkConfig;
use mdk_core::prelude::MdkStorageProvider;
use mdk_storage_traits::messages::types::MessageState;

fn scenario<S: MdkStorageProvider>(cs: Vec<Client<S>>) {
    let gid = form_group(&cs, &[0, 1]);
    let (alice, bob, carol) = (&cs[0], &cs[1], &cs[2]);
    assert_eq!(carol.epoch(&gid), 1);

    // Carol's own message of the fork-point epoch E = 1
    let (m_c, m_c_id) = carol.send(&gid, "carol at E");

    // The race: B (winner, earlier timestamp) and A (loser, removes Carol), both from epoch E
    let b = bob.mdk.self_update(&gid).unwrap().evolution_event;
    wait_after(b.created_at);
    let a = alice
        .mdk
        .remove_members(&gid, &[carol.pk()])
        .unwrap()
        .evolution_event;
    assert!(beats(&b, &a), "B must be the MIP-03 winner");

    // Carol: A, then B
    assert_eq!(carol.offer(&a), "Ok(\"Commit\")");
    let carol_b = carol.offer(&b);
    println!("carol B -> {carol_b}");

    // Everybody else converges on B (own commits come back from the relay -> snapshot path)
    assert_eq!(bob.offer(&b), "Ok(\"Commit\")");
    assert_eq!(alice.offer(&a), "Ok(\"Commit\")");
    assert_eq!(alice.offer(&b), "Ok(\"Commit\")"); // rollback + B
    println!("bob A -> {}", bob.offer(&a));
    for c in [alice, bob] {
        assert_eq!(c.epoch(&gid), 2);
        assert!(
            c.mdk.get_members(&gid).unwrap().contains(&carol.pk()),
            "{}: Carol is a member of the winning epoch E+1",
            c.name
        );
    }

    // A message of the winning branch, and Carol's own message of epoch E
    let (m_w, m_w_id) = bob.send(&gid, "bob at E+1 on the winning branch");
    for c in [alice, bob] {
        c.offer(&m_w);
        c.offer(&m_c);
        assert_eq!(c.msg_state(&gid, &m_w_id), Some(MessageState::Processed));
        assert_eq!(c.msg_state(&gid, &m_c_id), Some(MessageState::Processed));
    }

    // Carol is offered everything again and again, in causal order
    for round in 0..3 {
        for (n, ev) in [("A", &a), ("B", &b), ("m_c", &m_c), ("m_w", &m_w)] {
            println!("round {round} carol {n} -> {}", carol.offer(ev));
        }
    }
    let g = carol.mdk.get_group(&gid).unwrap().unwrap();
    println!(
        "carol: group state {:?}, epoch {}, m_w {:?}, own m_c {:?}",
        g.state,
        g.epoch,
        carol.msg_state(&gid, &m_w_id),
        carol.msg_state(&gid, &m_c_id)
    );
    assert_eq!(
        carol.msg_state(&gid, &m_w_id),
        Some(MessageState::Processed),
        "C02: Carol is a member of winning epoch E+1 but never stores Bob's message"
    );
    assert_eq!(
        carol.msg_state(&gid, &m_c_id),
        Some(MessageState::Processed),
        "C02: Carol's own copy of her epoch-E message is never confirmed"
    );
}

#[test]
fn demo_member_removed_by_losing_commit_memory() {
    let cfg = MdkConfig::default();
    scenario((0..3).map(|i| mem_client(i, &cfg)).collect());
}

#[test]
fn demo_member_removed_by_losing_commit_sqlite() {
    let dir = tempfile::tempdir().unwrap();
    let cfg = MdkConfig::default();
    scenario((0..3).map(|i| sqlite_client(i, &cfg, dir.path())).collect());
}
