//! C02 hypotheses on the SQLite backend (incl. restart).
mod q02_common;
use q02_common::*;

use mdk_core::{MDK, MdkConfig};
use mdk_sqlite_storage::MdkSqliteStorage;
use mdk_storage_traits::messages::types::MessageState;

fn reopen(c: Client<MdkSqliteStorage>, dir: &std::path::Path, cfg: &MdkConfig) -> Client<MdkSqliteStorage> {
    let Client { name, keys, mdk } = c;
    drop(mdk);
    let path = dir.join(format!("{}.db", name));
    Client {
        name,
        keys,
        mdk: MDK::builder(MdkSqliteStorage::new_unencrypted(path).unwrap())
            .with_config(cfg.clone())
            .build(),
    }
}

#[test]
fn s1_race_on_sqlite() {
    let dir = tempfile::tempdir().unwrap();
    let cfg = MdkConfig::default();
    let cs: Vec<_> = (0..4).map(|i| sqlite_client(i, &cfg, dir.path())).collect();
    let gid = form_group(&cs, &[0, 1]);
    let (alice, bob, carol, dave) = (&cs[0], &cs[1], &cs[2], &cs[3]);

    let (m_e, m_e_id) = dave.send(&gid, "dave at E");
    let (m_e2, m_e2_id) = carol.send(&gid, "carol at E");
    let b = bob.mdk.self_update(&gid).unwrap().evolution_event;
    wait_after(b.created_at);
    let a = alice.mdk.self_update(&gid).unwrap().evolution_event;
    println!("bob own B: {}", bob.offer(&b));
    println!("alice own A: {}", alice.offer(&a));
    let (m_w, m_w_id) = bob.send(&gid, "bob at E+1 (winning)");
    let (m_l, m_l_id) = alice.send(&gid, "alice at E+1 (losing)");

    println!("carol A: {}", carol.offer(&a));
    let (m_cl, m_cl_id) = carol.send(&gid, "carol at E+1 (losing)");
    println!("carol m_e: {}", carol.offer(&m_e));
    println!("carol m_w: {}", carol.offer(&m_w));
    println!("carol m_l: {}", carol.offer(&m_l));
    println!("carol B: {}", carol.offer(&b));
    for round in 0..2 {
        for (n, ev) in [
            ("a", &a),
            ("b", &b),
            ("m_e", &m_e),
            ("m_e2", &m_e2),
            ("m_w", &m_w),
            ("m_l", &m_l),
            ("m_cl", &m_cl),
        ] {
            println!("round {round} carol {n}: {}", carol.offer(ev));
        }
    }
    assert_eq!(carol.msg_state(&gid, &m_e_id), Some(MessageState::Processed));
    assert_eq!(carol.msg_state(&gid, &m_e2_id), Some(MessageState::Processed));
    assert_eq!(carol.msg_state(&gid, &m_w_id), Some(MessageState::Processed));
    assert_eq!(carol.count_with_id(&gid, &m_w_id), 1);
    assert_eq!(carol.msg_state(&gid, &m_l_id), Some(MessageState::EpochInvalidated));
    assert_eq!(carol.msg_state(&gid, &m_cl_id), Some(MessageState::EpochInvalidated));
    let all = carol.mdk.get_messages(&gid, None).unwrap();
    assert_eq!(all.len(), 5);
}

/// H10: own Created copy + echo across a restart; receiver restart between deliveries.
#[test]
fn s2_restart_own_created_and_echo() {
    let dir = tempfile::tempdir().unwrap();
    let cfg = MdkConfig::default();
    let mut cs: Vec<_> = (0..3).map(|i| sqlite_client(i, &cfg, dir.path())).collect();
    let gid = form_group(&cs, &[0, 1]);
    let (m1, m1_id) = cs[2].send(&gid, "carol before restart");
    let (m0, m0_id) = cs[0].send(&gid, "alice 0");
    let (m0b, m0b_id) = cs[0].send(&gid, "alice 1");
    println!("carol m0b: {}", cs[2].offer(&m0b));
    let c = cs[1].mdk.self_update(&gid).unwrap().evolution_event;
    for cl in cs.iter() {
        println!("{} commit: {}", cl.name, cl.offer(&c));
    }
    let carol = cs.pop().unwrap();
    let carol = reopen(carol, dir.path(), &cfg);
    assert_eq!(carol.msg_state(&gid, &m1_id), Some(MessageState::Created));
    println!("carol echo after restart: {}", carol.offer(&m1));
    println!("carol m0 (older generation, past epoch) after restart: {}", carol.offer(&m0));
    assert_eq!(carol.msg_state(&gid, &m1_id), Some(MessageState::Processed));
    assert_eq!(carol.msg_state(&gid, &m0_id), Some(MessageState::Processed));
    assert_eq!(carol.msg_state(&gid, &m0b_id), Some(MessageState::Processed));
    let (m2, m2_id) = carol.send(&gid, "carol after restart");
    println!("alice m2: {}", cs[0].offer(&m2));
    println!("alice m1: {}", cs[0].offer(&m1));
    assert_eq!(cs[0].msg_state(&gid, &m2_id), Some(MessageState::Processed));
    assert_eq!(cs[0].msg_state(&gid, &m1_id), Some(MessageState::Processed));
}
