//! C02 hypotheses around removals (memory backend).
mod q02_common;
use q02_common::*;

use mdk_core::MdkConfig;
use mdk_storage_traits::messages::types::MessageState;
use nostr::EventId;

/// H2': the losing commit removes the SENDER (Dave). His fork-point message and his
/// winning-branch message reach Carol while she is on the losing branch.
#[test]
fn r1_sender_removed_by_losing_commit() {
    let cfg = MdkConfig::default();
    let cs: Vec<_> = (0..4).map(|i| mem_client(i, &cfg)).collect();
    let gid = form_group(&cs, &[0, 1]);
    let (alice, bob, carol, dave) = (&cs[0], &cs[1], &cs[2], &cs[3]);
    let (m_e, m_e_id) = dave.send(&gid, "dave at E");
    let (m_e1, m_e1_id) = dave.send(&gid, "dave at E #2");
    let b = bob.mdk.self_update(&gid).unwrap().evolution_event;
    wait_after(b.created_at);
    let a = alice
        .mdk
        .remove_members(&gid, &[dave.pk()])
        .unwrap()
        .evolution_event;
    println!("dave B: {}", dave.offer(&b));
    let (m_w, m_w_id) = dave.send(&gid, "dave at E+1 winning");
    println!("carol m_e1 at E: {}", carol.offer(&m_e1));
    println!("carol A(remove dave): {}", carol.offer(&a));
    println!("carol m_e: {}", carol.offer(&m_e));
    println!("carol m_w: {}", carol.offer(&m_w));
    println!("carol B: {}", carol.offer(&b));
    for round in 0..2 {
        for (n, ev) in [("a", &a), ("b", &b), ("m_e", &m_e), ("m_e1", &m_e1), ("m_w", &m_w)] {
            println!("round {round} carol {n}: {}", carol.offer(ev));
        }
    }
    assert_eq!(carol.members(&gid), 4);
    for (n, id) in [("m_e", &m_e_id), ("m_e1", &m_e1_id), ("m_w", &m_w_id)] {
        assert_eq!(carol.msg_state(&gid, id), Some(MessageState::Processed), "{n}");
        assert_eq!(carol.count_with_id(&gid, id), 1, "{n}");
    }
    // Dave's own echoes, after he was offered the losing commit that removes him (refused:
    // he is on the winning branch already)
    println!("dave A: {}", dave.offer(&a));
    for (n, ev, id) in [("m_e", &m_e, &m_e_id), ("m_w", &m_w, &m_w_id)] {
        println!("dave echo {n}: {}", dave.offer(ev));
        assert_eq!(dave.msg_state(&gid, id), Some(MessageState::Processed), "{n}");
    }
}

/// R2: a member removed (by the only, winning commit) is offered a late message of the epoch
/// in which it still was a member.
#[test]
fn r2_late_message_after_own_removal() {
    let cfg = MdkConfig::default();
    let cs: Vec<_> = (0..3).map(|i| mem_client(i, &cfg)).collect();
    let gid = form_group(&cs, &[0, 1]);
    let (alice, bob, carol) = (&cs[0], &cs[1], &cs[2]);
    let (m, m_id) = bob.send(&gid, "bob at E, carol still a member");
    let (mc, mc_id) = carol.send(&gid, "carol at E");
    let a = alice
        .mdk
        .remove_members(&gid, &[carol.pk()])
        .unwrap()
        .evolution_event;
    println!("carol removal: {}", carol.offer(&a));
    println!("carol late m: {}", carol.offer(&m));
    println!("carol own echo: {}", carol.offer(&mc));
    println!(
        "carol m {:?}; own {:?}",
        carol.msg_state(&gid, &m_id),
        carol.msg_state(&gid, &mc_id)
    );
}

/// R3: message of the join epoch sent before the invitee accepted, delivered after.
#[test]
fn r3_join_epoch_message_sent_before_accept() {
    let cfg = MdkConfig::default();
    let cs: Vec<_> = (0..3).map(|i| mem_client(i, &cfg)).collect();
    let (alice, bob, carol) = (&cs[0], &cs[1], &cs[2]);
    let gid = form_group(&cs[..2], &[0]);
    let (m_old, m_old_id) = bob.send(&gid, "before carol");
    let kp = key_package_event(&carol.mdk, &carol.keys);
    let add = alice.mdk.add_members(&gid, &[kp]).unwrap();
    println!("alice own add: {}", alice.offer(&add.evolution_event));
    println!("bob add: {}", bob.offer(&add.evolution_event));
    let msgs: Vec<_> = (0..5).map(|i| bob.send(&gid, &format!("join epoch {i}"))).collect();
    let w = carol
        .mdk
        .process_welcome(&EventId::all_zeros(), &add.welcome_rumors.as_ref().unwrap()[0])
        .unwrap();
    carol.mdk.accept_welcome(&w).unwrap();
    for (ev, id) in msgs.iter().rev() {
        println!("carol: {}", carol.offer(ev));
        assert_eq!(carol.msg_state(&gid, id), Some(MessageState::Processed));
    }
    println!("carol add commit (own join): {}", carol.offer(&add.evolution_event));
    println!("carol m_old: {}", carol.offer(&m_old));
    assert_eq!(carol.msg_state(&gid, &m_old_id), None);
    let (mc, mc_id) = carol.send(&gid, "carol says hi");
    println!("bob mc: {}", bob.offer(&mc));
    assert_eq!(bob.msg_state(&gid, &mc_id), Some(MessageState::Processed));
}
