//! Shared helpers for the q02_* hypothesis tests (property C02).
#![allow(dead_code)]

use mdk_core::prelude::*;
use mdk_core::MdkConfig;
use mdk_memory_storage::MdkMemoryStorage;
use mdk_sqlite_storage::MdkSqliteStorage;
use mdk_storage_traits::messages::types::{Message, MessageState, ProcessedMessage};
use mdk_storage_traits::test_utils::crypto_utils::generate_random_bytes;
use nostr::{Event, EventBuilder, EventId, Keys, Kind, PublicKey, RelayUrl, Timestamp, UnsignedEvent};
use openmls::prelude::OpenMlsProvider;

pub struct Client<S: MdkStorageProvider> {
    pub name: &'static str,
    pub keys: Keys,
    pub mdk: MDK<S>,
}

impl<S: MdkStorageProvider> Client<S> {
    pub fn pk(&self) -> PublicKey {
        self.keys.public_key()
    }
    pub fn epoch(&self, gid: &GroupId) -> u64 {
        self.mdk.get_group(gid).unwrap().unwrap().epoch
    }
    pub fn send(&self, gid: &GroupId, content: &str) -> (Event, EventId) {
        let mut rumor = EventBuilder::new(Kind::TextNote, content).build(self.pk());
        rumor.ensure_id();
        let id = rumor.id.unwrap();
        let ev = self.mdk.create_message(gid, rumor).expect("create_message");
        (ev, id)
    }
    pub fn send_rumor(&self, gid: &GroupId, mut rumor: UnsignedEvent) -> (Event, EventId) {
        rumor.ensure_id();
        let id = rumor.id.unwrap();
        let ev = self.mdk.create_message(gid, rumor).expect("create_message");
        (ev, id)
    }
    /// Offer an event, returning a short description of the outcome.
    pub fn offer(&self, ev: &Event) -> String {
        match self.mdk.process_message(ev) {
            Ok(r) => format!("Ok({:?})", short(&r)),
            Err(e) => format!("Err({e})"),
        }
    }
    pub fn msg(&self, gid: &GroupId, id: &EventId) -> Option<Message> {
        self.mdk.get_message(gid, id).unwrap()
    }
    pub fn msg_state(&self, gid: &GroupId, id: &EventId) -> Option<MessageState> {
        self.msg(gid, id).map(|m| m.state)
    }
    pub fn record(&self, wrapper: &EventId) -> Option<ProcessedMessage> {
        self.mdk
            .provider
            .storage()
            .find_processed_message_by_event_id(wrapper)
            .unwrap()
    }
    pub fn count_with_id(&self, gid: &GroupId, id: &EventId) -> usize {
        self.mdk
            .get_messages(gid, None)
            .unwrap()
            .iter()
            .filter(|m| &m.id == id)
            .count()
    }
    pub fn members(&self, gid: &GroupId) -> usize {
        self.mdk.get_members(gid).unwrap().len()
    }
}

pub fn short(r: &MessageProcessingResult) -> &'static str {
    match r {
        MessageProcessingResult::ApplicationMessage(_) => "ApplicationMessage",
        MessageProcessingResult::Proposal(_) => "Proposal",
        MessageProcessingResult::PendingProposal { .. } => "PendingProposal",
        MessageProcessingResult::IgnoredProposal { .. } => "IgnoredProposal",
        MessageProcessingResult::ExternalJoinProposal { .. } => "ExternalJoinProposal",
        MessageProcessingResult::Commit { .. } => "Commit",
        MessageProcessingResult::Unprocessable { .. } => "Unprocessable",
        MessageProcessingResult::PreviouslyFailed => "PreviouslyFailed",
    }
}

pub fn key_package_event<S: MdkStorageProvider>(mdk: &MDK<S>, keys: &Keys) -> Event {
    let relays = vec![RelayUrl::parse("wss://test.relay").unwrap()];
    let (kp, tags, _h) = mdk
        .create_key_package_for_event(&keys.public_key(), relays)
        .expect("key package");
    EventBuilder::new(Kind::MlsKeyPackage, kp)
        .tags(tags)
        .sign_with_keys(keys)
        .expect("sign")
}

pub fn group_config(admins: Vec<PublicKey>) -> NostrGroupConfigData {
    let relays = vec![RelayUrl::parse("wss://test.relay").unwrap()];
    let image_hash: [u8; 32] = generate_random_bytes(32).try_into().unwrap();
    let image_key: [u8; 32] = generate_random_bytes(32).try_into().unwrap();
    let image_nonce: [u8; 12] = generate_random_bytes(12).try_into().unwrap();
    NostrGroupConfigData::new(
        "Test Group".to_owned(),
        "desc".to_owned(),
        Some(image_hash),
        Some(image_key),
        Some(image_nonce),
        relays,
        admins,
    )
}

pub const NAMES: [&str; 6] = ["alice", "bob", "carol", "dave", "erin", "frank"];

pub fn mem_client(i: usize, cfg: &MdkConfig) -> Client<MdkMemoryStorage> {
    Client {
        name: NAMES[i],
        keys: Keys::generate(),
        mdk: MDK::builder(MdkMemoryStorage::default())
            .with_config(cfg.clone())
            .build(),
    }
}

pub fn sqlite_client(
    i: usize,
    cfg: &MdkConfig,
    dir: &std::path::Path,
) -> Client<MdkSqliteStorage> {
    let path = dir.join(format!("{}.db", NAMES[i]));
    Client {
        name: NAMES[i],
        keys: Keys::generate(),
        mdk: MDK::builder(MdkSqliteStorage::new_unencrypted(path).unwrap())
            .with_config(cfg.clone())
            .build(),
    }
}

/// clients[0] creates the group with all the others; `admins` are indices. Everybody joins.
/// Afterwards everyone is at epoch 1.
pub fn form_group<S: MdkStorageProvider>(clients: &[Client<S>], admins: &[usize]) -> GroupId {
    let kps: Vec<Event> = clients[1..]
        .iter()
        .map(|c| key_package_event(&c.mdk, &c.keys))
        .collect();
    let admin_pks: Vec<PublicKey> = admins.iter().map(|i| clients[*i].pk()).collect();
    let res = clients[0]
        .mdk
        .create_group(&clients[0].pk(), kps, group_config(admin_pks))
        .expect("create_group");
    let gid = res.group.mls_group_id.clone();
    clients[0].mdk.merge_pending_commit(&gid).expect("merge");
    for (i, c) in clients[1..].iter().enumerate() {
        let w = c
            .mdk
            .process_welcome(&EventId::all_zeros(), &res.welcome_rumors[i])
            .expect("process_welcome");
        c.mdk.accept_welcome(&w).expect("accept_welcome");
    }
    gid
}

/// Block until the wall clock has moved to a second strictly after `t`.
pub fn wait_after(t: Timestamp) {
    while Timestamp::now().as_secs() <= t.as_secs() {
        std::thread::sleep(std::time::Duration::from_millis(50));
    }
}

/// true if commit event `a` beats `b` under MIP-03 (earlier created_at, then smaller id)
pub fn beats(a: &Event, b: &Event) -> bool {
    (a.created_at.as_secs(), a.id.to_hex()) < (b.created_at.as_secs(), b.id.to_hex())
}
