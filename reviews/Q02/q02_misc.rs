//! C02 hypotheses: own echoes, windows, welcomes, generations (memory backend).
mod q02_common;
use q02_common::*;

use mdk_core::MdkConfig;
use mdk_storage_traits::messages::types::MessageState;
use nostr::{EventBuilder, EventId, Kind, Tag, Timestamp};

/// Advance the whole group by one epoch with a self-update of `who` (applied through
/// process_message everywhere, committer included).
fn advance<S: mdk_core::prelude::MdkStorageProvider>(
    cs: &[Client<S>],
    who: usize,
    gid: &mdk_core::prelude::GroupId,
    skip: &[usize],
) -> nostr::Event {
    let ev = cs[who].mdk.self_update(gid).unwrap().evolution_event;
    for (i, c) in cs.iter().enumerate() {
        if skip.contains(&i) {
            continue;
        }
        let r = c.offer(&ev);
        assert!(r.contains("Commit"), "{} commit: {r}", c.name);
    }
    ev
}

/// H4: own message created at E, echo arrives after the sender moved to E+2 / E+5 / E+6.
#[test]
fn h4_own_echo_after_moving_on() {
    let cfg = MdkConfig::default();
    let cs: Vec<_> = (0..3).map(|i| mem_client(i, &cfg)).collect();
    let gid = form_group(&cs, &[0, 1]);
    let carol = &cs[2];
    let (m, m_id) = carol.send(&gid, "carol at E");
    assert_eq!(carol.msg_state(&gid, &m_id), Some(MessageState::Created));
    for k in 1..=5 {
        advance(&cs, k % 2, &gid, &[]);
    }
    assert_eq!(carol.epoch(&gid), 6);
    println!("carol echo at E+5: {}", carol.offer(&m));
    assert_eq!(carol.msg_state(&gid, &m_id), Some(MessageState::Processed));
    assert_eq!(carol.count_with_id(&gid, &m_id), 1);
    // receivers at distance 5 as well
    println!("alice m at E+5: {}", cs[0].offer(&m));
    assert_eq!(cs[0].msg_state(&gid, &m_id), Some(MessageState::Processed));
    // k = window + 1 for bob
    advance(&cs, 0, &gid, &[]);
    println!("bob m at E+6 (outside window): {}", cs[1].offer(&m));
}

/// H9: windows 1 and 0, k = window and k = window + 1
#[test]
fn h9_small_windows() {
    for w in [0usize, 1, 2] {
        let cfg = MdkConfig {
            max_past_epochs: w,
            ..MdkConfig::default()
        };
        let cs: Vec<_> = (0..3).map(|i| mem_client(i, &cfg)).collect();
        let gid = form_group(&cs, &[0, 1]);
        let (m, m_id) = cs[0].send(&gid, "alice at E");
        for k in 0..w {
            advance(&cs, k % 2, &gid, &[]);
        }
        // distance exactly w
        println!("w={w} carol m at distance {w}: {}", cs[2].offer(&m));
        assert_eq!(
            cs[2].msg_state(&gid, &m_id),
            Some(MessageState::Processed),
            "window {w}"
        );
        println!("w={w} alice echo at distance {w}: {}", cs[0].offer(&m));
        assert_eq!(cs[0].msg_state(&gid, &m_id), Some(MessageState::Processed));
        advance(&cs, 0, &gid, &[]);
        println!("w={w} bob m at distance {}: {}", w + 1, cs[1].offer(&m));
    }
}

/// H8: out-of-order generations of one sender interleaved with a commit by the same sender.
#[test]
fn h8_generations_and_commit_by_same_sender() {
    let cfg = MdkConfig::default();
    let cs: Vec<_> = (0..3).map(|i| mem_client(i, &cfg)).collect();
    let gid = form_group(&cs, &[0, 1]);
    let (alice, carol) = (&cs[0], &cs[2]);
    let mut e1 = Vec::new();
    for i in 0..100 {
        e1.push(alice.send(&gid, &format!("e1-{i}")));
    }
    let c = alice.mdk.self_update(&gid).unwrap().evolution_event;
    println!("alice own commit: {}", alice.offer(&c));
    let mut e2 = Vec::new();
    for i in 0..100 {
        e2.push(alice.send(&gid, &format!("e2-{i}")));
    }
    // Carol: last of e1 first, then commit, then e2 reversed, then e1 reversed
    println!("carol e1[99]: {}", carol.offer(&e1[99].0));
    println!("carol commit: {}", carol.offer(&c));
    for (ev, _) in e2.iter().rev() {
        let r = carol.offer(ev);
        assert!(r.contains("ApplicationMessage"), "{r}");
    }
    for (i, (ev, _)) in e1.iter().enumerate().rev().skip(1) {
        let r = carol.offer(ev);
        assert!(r.contains("ApplicationMessage"), "e1[{i}] {r}");
    }
    for (_, id) in e1.iter().chain(e2.iter()) {
        assert_eq!(carol.msg_state(&gid, id), Some(MessageState::Processed));
        assert_eq!(carol.count_with_id(&gid, id), 1);
    }
    assert_eq!(carol.mdk.get_messages(&gid, None).unwrap().len(), 200);
}

/// H8b: tolerance boundary: 101 messages delivered in reverse (distance 100 = tolerance)
#[test]
fn h8b_tolerance_boundary() {
    for tol in [100u32, 3, 1, 0] {
        let cfg = MdkConfig {
            out_of_order_tolerance: tol,
            ..MdkConfig::default()
        };
        let cs: Vec<_> = (0..2).map(|i| mem_client(i, &cfg)).collect();
        let gid = form_group(&cs, &[0]);
        let (alice, bob) = (&cs[0], &cs[1]);
        let n = tol as usize + 1;
        let msgs: Vec<_> = (0..n).map(|i| alice.send(&gid, &format!("m{i}"))).collect();
        for (i, (ev, id)) in msgs.iter().enumerate().rev() {
            let r = bob.offer(ev);
            if i < 2 {
                println!("tol {tol} m{i}: {r}");
            }
            if i == 0 {
                // distance == tolerance from the highest generation seen: openmls counts from
                // the NEXT expected generation, so this one is refused (side observation)
                println!("tol {tol} m0 state {:?}", bob.msg_state(&gid, id));
                continue;
            }
            assert_eq!(
                bob.msg_state(&gid, id),
                Some(MessageState::Processed),
                "tol {tol} m{i}"
            );
        }
    }
}

/// H8c: forward distance boundary
#[test]
fn h8c_forward_distance_boundary() {
    for fwd in [5u32, 1] {
        let cfg = MdkConfig {
            maximum_forward_distance: fwd,
            ..MdkConfig::default()
        };
        let cs: Vec<_> = (0..2).map(|i| mem_client(i, &cfg)).collect();
        let gid = form_group(&cs, &[0]);
        let (alice, bob) = (&cs[0], &cs[1]);
        let n = fwd as usize + 1;
        let msgs: Vec<_> = (0..n).map(|i| alice.send(&gid, &format!("m{i}"))).collect();
        // deliver the last one first: skips `fwd` generations
        let (ev, id) = msgs.last().unwrap();
        println!("fwd {fwd} last: {}", bob.offer(ev));
        assert_eq!(bob.msg_state(&gid, id), Some(MessageState::Processed));
    }
}

/// H7: messages of the join epoch offered between process_welcome and accept_welcome
#[test]
fn h7_message_between_process_and_accept_welcome() {
    let cfg = MdkConfig::default();
    let cs: Vec<_> = (0..3).map(|i| mem_client(i, &cfg)).collect();
    let (alice, bob, carol) = (&cs[0], &cs[1], &cs[2]);
    let gid = form_group(&cs[..2], &[0]);
    let kp = key_package_event(&carol.mdk, &carol.keys);
    let add = alice.mdk.add_members(&gid, &[kp]).unwrap();
    println!("alice own add: {}", alice.offer(&add.evolution_event));
    println!("bob add: {}", bob.offer(&add.evolution_event));
    let (m, m_id) = bob.send(&gid, "bob at join epoch");
    let w = carol
        .mdk
        .process_welcome(&EventId::all_zeros(), &add.welcome_rumors.as_ref().unwrap()[0])
        .unwrap();
    println!("carol m before accept: {}", carol.offer(&m));
    carol.mdk.accept_welcome(&w).unwrap();
    println!("carol m after accept: {}", carol.offer(&m));
    println!(
        "carol m state {:?} record {:?}",
        carol.msg_state(&gid, &m_id),
        carol.record(&m.id).map(|r| (r.state, r.failure_reason))
    );
    assert_eq!(carol.msg_state(&gid, &m_id), Some(MessageState::Processed));
}

/// H12: the same rumor sent twice (same id), and content/tags/kind intact
#[test]
fn h12_same_rumor_twice_and_intact_fields() {
    let cfg = MdkConfig::default();
    let cs: Vec<_> = (0..2).map(|i| mem_client(i, &cfg)).collect();
    let gid = form_group(&cs, &[0]);
    let (alice, bob) = (&cs[0], &cs[1]);
    let rumor = EventBuilder::new(Kind::Reaction, "+\u{1F600}\"\\\n\u{0}x")
        .tag(Tag::parse(["e", &"ab".repeat(32)]).unwrap())
        .tag(Tag::parse(["x", "", "y"]).unwrap())
        .tag(Tag::parse(["x", "", "y"]).unwrap())
        .custom_created_at(Timestamp::from(12345))
        .build(alice.pk());
    let (e1, id) = alice.send_rumor(&gid, rumor.clone());
    let (e2, id2) = alice.send_rumor(&gid, rumor.clone());
    assert_eq!(id, id2);
    println!("bob e2: {}", bob.offer(&e2));
    println!("bob e1: {}", bob.offer(&e1));
    println!("alice e1: {}", alice.offer(&e1));
    println!("alice e2: {}", alice.offer(&e2));
    for c in [alice, bob] {
        let m = c.msg(&gid, &id).unwrap();
        assert_eq!(c.count_with_id(&gid, &id), 1);
        assert_eq!(m.state, MessageState::Processed, "{}", c.name);
        assert_eq!(m.content, rumor.content);
        assert_eq!(m.kind, Kind::Reaction);
        assert_eq!(m.tags, rumor.tags);
        assert_eq!(m.created_at, Timestamp::from(12345));
        assert_eq!(m.pubkey, alice.pk());
    }
    // kind 5
    let rumor5 = EventBuilder::new(Kind::EventDeletion, "")
        .tag(Tag::parse(["e", &id.to_hex()]).unwrap())
        .build(alice.pk());
    let (e5, id5) = alice.send_rumor(&gid, rumor5);
    println!("bob e5: {}", bob.offer(&e5));
    assert_eq!(bob.msg_state(&gid, &id5), Some(MessageState::Processed));
    assert_eq!(bob.msg_state(&gid, &id), Some(MessageState::Processed));
}

/// Side: create_message accepts a rumor whose pubkey is not the sender's identity / whose id is
/// not the hash of its fields; receivers refuse it, the sender keeps (and confirms) its copy.
#[test]
fn side_create_message_accepts_unsendable_rumors() {
    let cfg = MdkConfig::default();
    let cs: Vec<_> = (0..2).map(|i| mem_client(i, &cfg)).collect();
    let gid = form_group(&cs, &[0]);
    let (alice, bob) = (&cs[0], &cs[1]);
    // foreign author
    let r1 = EventBuilder::new(Kind::TextNote, "as bob").build(bob.pk());
    let res = alice.mdk.create_message(&gid, r1.clone());
    println!("create with foreign pubkey: {:?}", res.as_ref().map(|e| e.id));
    if let Ok(ev) = res {
        let mut r = r1.clone();
        r.ensure_id();
        println!("bob: {}", bob.offer(&ev));
        println!("alice echo: {}", alice.offer(&ev));
        println!(
            "alice copy {:?} bob copy {:?}",
            alice.msg_state(&gid, &r.id.unwrap()),
            bob.msg_state(&gid, &r.id.unwrap())
        );
    }
    // wrong id
    let mut r2 = EventBuilder::new(Kind::TextNote, "wrong id").build(alice.pk());
    r2.id = Some(EventId::all_zeros());
    let res = alice.mdk.create_message(&gid, r2);
    println!("create with wrong id: {:?}", res.as_ref().map(|e| e.id));
    if let Ok(ev) = res {
        println!("bob: {}", bob.offer(&ev));
        println!("alice echo: {}", alice.offer(&ev));
        println!(
            "alice copy {:?} bob copy {:?}",
            alice.msg_state(&gid, &EventId::all_zeros()),
            bob.msg_state(&gid, &EventId::all_zeros())
        );
    }
    // message while a commit is pending
    let _c = alice.mdk.self_update(&gid).unwrap();
    let r3 = EventBuilder::new(Kind::TextNote, "pending commit").build(alice.pk());
    println!(
        "create with pending commit: {:?}",
        alice.mdk.create_message(&gid, r3).map(|e| e.id)
    );
}
