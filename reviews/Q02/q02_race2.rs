//! More C02 race hypotheses (memory backend).
mod q02_common;
use q02_common::*;

use mdk_core::MdkConfig;
use mdk_storage_traits::messages::types::MessageState;

/// H14: Carol is two commits deep on the losing branch; winning-branch traffic of E+1 and E+2
/// (commit C2 and messages) is offered in causal order for the winning branch.
#[test]
fn h14_two_deep_losing_branch() {
    let cfg = MdkConfig::default();
    let cs: Vec<_> = (0..4).map(|i| mem_client(i, &cfg)).collect();
    let gid = form_group(&cs, &[0, 1]);
    let (alice, bob, carol, dave) = (&cs[0], &cs[1], &cs[2], &cs[3]);

    let (m_e, m_e_id) = dave.send(&gid, "dave at E");
    let b = bob.mdk.self_update(&gid).unwrap().evolution_event;
    wait_after(b.created_at);
    let a = alice.mdk.self_update(&gid).unwrap().evolution_event;
    println!("alice own A: {}", alice.offer(&a));
    let (m_l1, m_l1_id) = alice.send(&gid, "alice E+1 losing");
    let a2 = alice.mdk.self_update(&gid).unwrap().evolution_event;
    println!("alice own A2: {}", alice.offer(&a2));
    let (m_l2, m_l2_id) = alice.send(&gid, "alice E+2 losing");

    println!("bob own B: {}", bob.offer(&b));
    println!("dave B: {}", dave.offer(&b));
    let (m_w1, m_w1_id) = bob.send(&gid, "bob E+1 winning");
    let (m_wd, m_wd_id) = dave.send(&gid, "dave E+1 winning");
    let c2 = bob.mdk.self_update(&gid).unwrap().evolution_event;
    println!("bob own C2: {}", bob.offer(&c2));
    let (m_w2, m_w2_id) = bob.send(&gid, "bob E+2 winning");

    // Carol: A, m_l1, A2, m_l2, m_e  | then B, m_w1, m_wd, C2, m_w2
    for (n, ev) in [("a", &a), ("m_l1", &m_l1), ("a2", &a2), ("m_l2", &m_l2), ("m_e", &m_e)] {
        println!("carol {n}: {}", carol.offer(ev));
    }
    assert_eq!(carol.epoch(&gid), 3);
    let (m_c, m_c_id) = carol.send(&gid, "carol E+2 losing");
    for (n, ev) in [("b", &b), ("m_w1", &m_w1), ("m_wd", &m_wd), ("c2", &c2), ("m_w2", &m_w2)] {
        println!("carol {n}: {}", carol.offer(ev));
    }
    for round in 0..2 {
        for (n, ev) in [
            ("a", &a),
            ("m_l1", &m_l1),
            ("a2", &a2),
            ("m_l2", &m_l2),
            ("m_e", &m_e),
            ("b", &b),
            ("m_w1", &m_w1),
            ("m_wd", &m_wd),
            ("c2", &c2),
            ("m_w2", &m_w2),
            ("m_c", &m_c),
        ] {
            println!("round {round} carol {n}: {}", carol.offer(ev));
        }
    }
    assert_eq!(carol.epoch(&gid), 3);
    for (n, id) in [("m_e", &m_e_id), ("m_w1", &m_w1_id), ("m_wd", &m_wd_id), ("m_w2", &m_w2_id)] {
        assert_eq!(carol.msg_state(&gid, id), Some(MessageState::Processed), "{n}");
        assert_eq!(carol.count_with_id(&gid, id), 1, "{n}");
    }
    for (n, id) in [("m_l1", &m_l1_id), ("m_l2", &m_l2_id), ("m_c", &m_c_id)] {
        assert_eq!(carol.msg_state(&gid, id), Some(MessageState::EpochInvalidated), "{n}");
    }
    // and Carol can talk on the winning branch
    let (m_c2, m_c2_id) = carol.send(&gid, "carol E+2 winning");
    println!("bob m_c2: {}", bob.offer(&m_c2));
    assert_eq!(bob.msg_state(&gid, &m_c2_id), Some(MessageState::Processed));
}

/// H13: three-way race, Carol sees worst, middle, best; messages of each branch.
#[test]
fn h13_three_way_race() {
    let cfg = MdkConfig::default();
    let cs: Vec<_> = (0..5).map(|i| mem_client(i, &cfg)).collect();
    let gid = form_group(&cs, &[0, 1, 2]);
    let (alice, bob, carol, dave, erin) = (&cs[0], &cs[1], &cs[2], &cs[3], &cs[4]);
    let best = carol.mdk.self_update(&gid).unwrap().evolution_event;
    wait_after(best.created_at);
    let mid = bob.mdk.self_update(&gid).unwrap().evolution_event;
    wait_after(mid.created_at);
    let worst = alice.mdk.self_update(&gid).unwrap().evolution_event;
    println!("alice own worst: {}", alice.offer(&worst));
    println!("bob own mid: {}", bob.offer(&mid));
    println!("carol own best: {}", carol.offer(&best));
    let (m_worst, m_worst_id) = alice.send(&gid, "on worst");
    let (m_mid, m_mid_id) = bob.send(&gid, "on mid");
    let (m_best, m_best_id) = carol.send(&gid, "on best");

    for c in [dave, erin] {
        let order: Vec<(&str, &nostr::Event)> = if c.name == "dave" {
            vec![("worst", &worst), ("m_best", &m_best), ("m_worst", &m_worst), ("mid", &mid), ("m_mid", &m_mid), ("m_best", &m_best), ("best", &best)]
        } else {
            vec![("mid", &mid), ("m_mid", &m_mid), ("m_best", &m_best), ("worst", &worst), ("m_worst", &m_worst), ("best", &best)]
        };
        for (n, ev) in order {
            println!("{} {n}: {}", c.name, c.offer(ev));
        }
        for round in 0..2 {
            for (n, ev) in [("worst", &worst), ("mid", &mid), ("best", &best), ("m_worst", &m_worst), ("m_mid", &m_mid), ("m_best", &m_best)] {
                println!("round {round} {} {n}: {}", c.name, c.offer(ev));
            }
        }
        assert_eq!(c.msg_state(&gid, &m_best_id), Some(MessageState::Processed), "{}", c.name);
        assert_eq!(c.count_with_id(&gid, &m_best_id), 1);
        assert_ne!(c.msg_state(&gid, &m_mid_id), Some(MessageState::Processed), "{}", c.name);
        assert_ne!(c.msg_state(&gid, &m_worst_id), Some(MessageState::Processed), "{}", c.name);
    }
    // the losing committers converge and their own copies are invalid
    for (c, own) in [(alice, &m_worst_id), (bob, &m_mid_id)] {
        println!("{} m_best early: {}", c.name, c.offer(&m_best));
        println!("{} best: {}", c.name, c.offer(&best));
        println!("{} m_best: {}", c.name, c.offer(&m_best));
        assert_eq!(c.msg_state(&gid, &m_best_id), Some(MessageState::Processed), "{}", c.name);
        assert_eq!(c.msg_state(&gid, own), Some(MessageState::EpochInvalidated), "{}", c.name);
    }
}

/// H20: the winning committer Bob receives the losing commit first (while his own commit is
/// still pending), talks on the losing branch, then gets his own commit back from the relay.
#[test]
fn h20_winning_committer_sees_loser_first() {
    let cfg = MdkConfig::default();
    let cs: Vec<_> = (0..3).map(|i| mem_client(i, &cfg)).collect();
    let gid = form_group(&cs, &[0, 1]);
    let (alice, bob, carol) = (&cs[0], &cs[1], &cs[2]);
    let (m_be, m_be_id) = bob.send(&gid, "bob at E");
    let b = bob.mdk.self_update(&gid).unwrap().evolution_event;
    wait_after(b.created_at);
    let a = alice.mdk.self_update(&gid).unwrap().evolution_event;
    println!("alice own A: {}", alice.offer(&a));
    let (m_l, m_l_id) = alice.send(&gid, "alice losing");
    println!("bob A (pending own B): {}", bob.offer(&a));
    println!("bob epoch {}", bob.epoch(&gid));
    println!("bob m_l: {}", bob.offer(&m_l));
    let bl = bob.mdk.create_message(&gid, nostr::EventBuilder::new(nostr::Kind::TextNote, "bob losing").build(bob.pk()));
    println!("bob create on losing branch: {:?}", bl.as_ref().map(|e| e.id));
    println!("bob own B: {}", bob.offer(&b));
    println!("bob epoch {}", bob.epoch(&gid));
    println!("bob own m_be echo: {}", bob.offer(&m_be));
    assert_eq!(bob.msg_state(&gid, &m_be_id), Some(MessageState::Processed));
    assert_eq!(bob.msg_state(&gid, &m_l_id), Some(MessageState::EpochInvalidated));
    let (m_w, m_w_id) = bob.send(&gid, "bob winning");
    println!("carol B: {}", carol.offer(&b));
    println!("carol m_w: {}", carol.offer(&m_w));
    println!("carol m_be: {}", carol.offer(&m_be));
    assert_eq!(carol.msg_state(&gid, &m_w_id), Some(MessageState::Processed));
    assert_eq!(carol.msg_state(&gid, &m_be_id), Some(MessageState::Processed));
    println!("alice B: {}", alice.offer(&b));
    println!("alice m_w: {}", alice.offer(&m_w));
    assert_eq!(alice.msg_state(&gid, &m_w_id), Some(MessageState::Processed));
    println!("bob m_w echo: {}", bob.offer(&m_w));
    assert_eq!(bob.msg_state(&gid, &m_w_id), Some(MessageState::Processed));
}

/// H6: max_past_epochs = 1. Carol is two commits deep on the losing branch when Dave's message
/// of the fork-point epoch E arrives (distance 2 there, refused). After the rollback she is at
/// E+1 on the winning branch, where the same message is at distance 1 = inside the window.
#[test]
fn h6_fork_point_message_outside_window_on_losing_branch_only() {
    let cfg = MdkConfig {
        max_past_epochs: 1,
        ..MdkConfig::default()
    };
    let cs: Vec<_> = (0..4).map(|i| mem_client(i, &cfg)).collect();
    let gid = form_group(&cs, &[0, 1]);
    let (alice, bob, carol, dave) = (&cs[0], &cs[1], &cs[2], &cs[3]);
    let (m_e, m_e_id) = dave.send(&gid, "dave at E");
    let b = bob.mdk.self_update(&gid).unwrap().evolution_event;
    wait_after(b.created_at);
    let a = alice.mdk.self_update(&gid).unwrap().evolution_event;
    println!("alice own A: {}", alice.offer(&a));
    let a2 = alice.mdk.self_update(&gid).unwrap().evolution_event;
    println!("carol A: {}", carol.offer(&a));
    println!("carol A2: {}", carol.offer(&a2));
    println!("carol m_e at E+2 (losing): {}", carol.offer(&m_e));
    println!("carol B: {}", carol.offer(&b));
    println!("carol epoch {}", carol.epoch(&gid));
    println!("carol m_e at E+1 (winning): {}", carol.offer(&m_e));
    println!(
        "carol m_e state {:?} record {:?}",
        carol.msg_state(&gid, &m_e_id),
        carol.record(&m_e.id).map(|r| (r.state, r.epoch))
    );
    // control: Erin-like client that only ever saw the winning branch accepts it at distance 1
    println!("dave B: {}", dave.offer(&b));
    println!("bob own B: {}", bob.offer(&b));
    println!("bob m_e at E+1: {}", bob.offer(&m_e));
    assert_eq!(bob.msg_state(&gid, &m_e_id), Some(MessageState::Processed));
    assert_eq!(carol.msg_state(&gid, &m_e_id), Some(MessageState::Processed));
}
