//! C02 hypotheses around commit races and rollbacks (memory backend).
mod q02_common;
use q02_common::*;

use mdk_core::MdkConfig;
use mdk_storage_traits::messages::types::{MessageState, ProcessedMessageState};

/// H1/H2/H15: Carol applies the losing commit A first; while there she is offered
///  - m_e   : Dave's message of the fork-point epoch E
///  - m_w   : Bob's message of the winning epoch E+1 (B)
///  - m_l   : Alice's message of the losing epoch E+1 (A)
/// then the winning commit B, then everything is re-offered until nothing changes.
#[test]
fn h1_h2_fork_point_and_winning_messages_on_losing_branch() {
    let cfg = MdkConfig::default();
    let cs: Vec<_> = (0..4).map(|i| mem_client(i, &cfg)).collect();
    let gid = form_group(&cs, &[0, 1]);
    let (alice, bob, carol, dave) = (&cs[0], &cs[1], &cs[2], &cs[3]);

    let (m_e, m_e_id) = dave.send(&gid, "dave at E");

    let b = bob.mdk.self_update(&gid).unwrap().evolution_event;
    wait_after(b.created_at);
    let a = alice.mdk.self_update(&gid).unwrap().evolution_event;
    assert!(beats(&b, &a));

    // Both committers see their own commit come back from the relay first.
    println!("bob own B: {}", bob.offer(&b));
    println!("alice own A: {}", alice.offer(&a));
    let (m_w, m_w_id) = bob.send(&gid, "bob at E+1 (winning)");
    let (m_l, m_l_id) = alice.send(&gid, "alice at E+1 (losing)");

    // Carol: A first
    println!("carol A: {}", carol.offer(&a));
    assert_eq!(carol.epoch(&gid), 2);
    println!("carol m_e: {}", carol.offer(&m_e));
    println!("carol m_w: {}", carol.offer(&m_w));
    println!("carol m_l: {}", carol.offer(&m_l));
    assert_eq!(carol.msg_state(&gid, &m_l_id), Some(MessageState::Processed));
    println!("carol B: {}", carol.offer(&b));
    assert_eq!(carol.epoch(&gid), 2);

    // Re-offer everything several rounds
    for round in 0..3 {
        for (n, ev) in [("a", &a), ("b", &b), ("m_e", &m_e), ("m_w", &m_w), ("m_l", &m_l)] {
            println!("round {round} carol {n}: {}", carol.offer(ev));
        }
    }
    println!(
        "m_e {:?} m_w {:?} m_l {:?}",
        carol.msg_state(&gid, &m_e_id),
        carol.msg_state(&gid, &m_w_id),
        carol.msg_state(&gid, &m_l_id)
    );
    assert_eq!(carol.msg_state(&gid, &m_e_id), Some(MessageState::Processed));
    assert_eq!(carol.count_with_id(&gid, &m_e_id), 1);
    assert_eq!(carol.msg_state(&gid, &m_w_id), Some(MessageState::Processed));
    assert_eq!(carol.count_with_id(&gid, &m_w_id), 1);
    assert_eq!(
        carol.msg_state(&gid, &m_l_id),
        Some(MessageState::EpochInvalidated)
    );
    let m = carol.msg(&gid, &m_w_id).unwrap();
    assert_eq!(m.content, "bob at E+1 (winning)");
    assert_eq!(m.pubkey, bob.pk());

    // Alice (losing committer, own commit applied through process_message) converges too
    println!("alice m_w (before B): {}", alice.offer(&m_w));
    println!("alice B: {}", alice.offer(&b));
    println!("alice m_w: {}", alice.offer(&m_w));
    println!("alice m_l echo: {}", alice.offer(&m_l));
    println!("alice m_e: {}", alice.offer(&m_e));
    assert_eq!(alice.msg_state(&gid, &m_w_id), Some(MessageState::Processed));
    assert_eq!(alice.msg_state(&gid, &m_e_id), Some(MessageState::Processed));
    // H3: the sender's own copy of a losing-branch message must not be valid
    println!("alice own m_l: {:?}", alice.msg_state(&gid, &m_l_id));
    assert_eq!(
        alice.msg_state(&gid, &m_l_id),
        Some(MessageState::EpochInvalidated)
    );
    println!("alice own m_l record: {:?}", alice.record(&m_l.id).map(|r| r.state));

    // Bob's own copy is confirmed when it returns
    println!("bob A: {}", bob.offer(&a));
    println!("bob m_w echo: {}", bob.offer(&m_w));
    assert_eq!(bob.msg_state(&gid, &m_w_id), Some(MessageState::Processed));
    println!("bob m_l: {}", bob.offer(&m_l));
    assert_ne!(bob.msg_state(&gid, &m_l_id), Some(MessageState::Processed));

    // Dave: B first, then A, then all
    println!("dave B: {}", dave.offer(&b));
    println!("dave A: {}", dave.offer(&a));
    println!("dave m_l: {}", dave.offer(&m_l));
    println!("dave m_w: {}", dave.offer(&m_w));
    println!("dave m_e echo: {}", dave.offer(&m_e));
    assert_eq!(dave.msg_state(&gid, &m_w_id), Some(MessageState::Processed));
    assert_eq!(dave.msg_state(&gid, &m_e_id), Some(MessageState::Processed));
    assert_ne!(dave.msg_state(&gid, &m_l_id), Some(MessageState::Processed));
}

/// H3b: the losing-branch sender gets its echo BEFORE the rollback (own copy confirmed on the
/// losing branch), then the rollback. And a non-committer sender on the losing branch.
#[test]
fn h3_own_message_on_losing_branch() {
    let cfg = MdkConfig::default();
    let cs: Vec<_> = (0..4).map(|i| mem_client(i, &cfg)).collect();
    let gid = form_group(&cs, &[0, 1]);
    let (alice, bob, carol, dave) = (&cs[0], &cs[1], &cs[2], &cs[3]);

    let b = bob.mdk.self_update(&gid).unwrap().evolution_event;
    wait_after(b.created_at);
    let a = alice.mdk.self_update(&gid).unwrap().evolution_event;

    // Carol and Dave go to the losing branch
    println!("carol A: {}", carol.offer(&a));
    println!("dave A: {}", dave.offer(&a));
    let (c1, c1_id) = carol.send(&gid, "carol losing, echo before rollback");
    let (c2, c2_id) = carol.send(&gid, "carol losing, echo after rollback");
    println!("carol c1 echo: {}", carol.offer(&c1));
    println!("dave c1: {}", dave.offer(&c1));
    println!("carol B: {}", carol.offer(&b));
    println!("carol c2 echo: {}", carol.offer(&c2));
    println!("carol c1 echo again: {}", carol.offer(&c1));
    println!(
        "carol c1 {:?} c2 {:?}; records {:?} {:?}",
        carol.msg_state(&gid, &c1_id),
        carol.msg_state(&gid, &c2_id),
        carol.record(&c1.id).map(|r| r.state),
        carol.record(&c2.id).map(|r| r.state)
    );
    assert_eq!(
        carol.msg_state(&gid, &c1_id),
        Some(MessageState::EpochInvalidated)
    );
    assert_eq!(
        carol.msg_state(&gid, &c2_id),
        Some(MessageState::EpochInvalidated)
    );
    println!("dave B: {}", dave.offer(&b));
    println!("dave c1: {}", dave.offer(&c1));
    println!("dave c2: {}", dave.offer(&c2));
    assert_eq!(
        dave.msg_state(&gid, &c1_id),
        Some(MessageState::EpochInvalidated)
    );
    assert_ne!(dave.msg_state(&gid, &c2_id), Some(MessageState::Processed));

    // Carol re-sends on the winning branch: everybody gets it
    println!("bob B: {}", bob.offer(&b));
    let (c3, c3_id) = carol.send(&gid, "carol winning");
    for c in [bob, dave, carol] {
        println!("{} c3: {}", c.name, c.offer(&c3));
        assert_eq!(c.msg_state(&gid, &c3_id), Some(MessageState::Processed));
    }
    let _ = ProcessedMessageState::Processed;
}

/// H5: the losing commit removes Carol. She applied it first. The winning commit (which keeps
/// her) arrives afterwards: does she come back and receive the winning branch's messages?
#[test]
fn h5_member_removed_by_losing_commit() {
    let cfg = MdkConfig::default();
    let cs: Vec<_> = (0..4).map(|i| mem_client(i, &cfg)).collect();
    let gid = form_group(&cs, &[0, 1]);
    let (alice, bob, carol, dave) = (&cs[0], &cs[1], &cs[2], &cs[3]);

    let b = bob.mdk.self_update(&gid).unwrap().evolution_event;
    wait_after(b.created_at);
    let a = alice
        .mdk
        .remove_members(&gid, &[carol.pk()])
        .unwrap()
        .evolution_event;
    assert!(beats(&b, &a));

    println!("carol A(remove carol): {}", carol.offer(&a));
    println!(
        "carol group state: {:?}",
        carol.mdk.get_group(&gid).unwrap().unwrap().state
    );
    println!("carol B: {}", carol.offer(&b));
    println!(
        "carol group state after B: {:?} epoch {}",
        carol.mdk.get_group(&gid).unwrap().unwrap().state,
        carol.epoch(&gid)
    );

    // everyone else converges on B
    println!("bob own B: {}", bob.offer(&b));
    println!("alice own A: {}", alice.offer(&a));
    println!("alice B: {}", alice.offer(&b));
    println!("dave B: {}", dave.offer(&b));
    println!("dave A: {}", dave.offer(&a));
    println!("bob A: {}", bob.offer(&a));
    for c in [alice, bob, dave] {
        assert_eq!(c.members(&gid), 4, "{} sees 4 members on the winning branch", c.name);
    }
    let (m, m_id) = bob.send(&gid, "bob on the winning branch");
    for c in [alice, dave, bob] {
        println!("{} m: {}", c.name, c.offer(&m));
        assert_eq!(c.msg_state(&gid, &m_id), Some(MessageState::Processed));
    }
    for round in 0..2 {
        println!("round {round} carol A: {}", carol.offer(&a));
        println!("round {round} carol B: {}", carol.offer(&b));
        println!("round {round} carol m: {}", carol.offer(&m));
    }
    assert_eq!(
        carol.msg_state(&gid, &m_id),
        Some(MessageState::Processed),
        "Carol is a member of the winning epoch and must hold Bob's message"
    );
}
