//! C02 demo: the configured past-epoch window (`MdkConfig::max_past_epochs`) is not honoured
//! above 5.
//!
//! `MdkConfig::max_past_epochs` is documented as the number of past epochs for which a late
//! application message can still be decrypted, and it is wired into OpenMLS on create and on
//! join. The outer NIP-44 layer, however, is opened with the exporter secrets of the current
//! epoch and of a hard-coded `DEFAULT_EPOCH_LOOKBACK = 5` past epochs
//! (crates/mdk-core/src/messages/mod.rs:65, used at
//! crates/mdk-core/src/messages/decryption.rs:155-183 / 98-101). With `max_past_epochs = 8` a
//! message that arrives 6..8 epochs late is inside the configured window, its exporter secret is
//! still stored and OpenMLS still holds the epoch's message secrets, but MDK never tries that
//! secret: the message is refused, recorded as Failed for ever, and never stored. The sender's
//! own copy is never confirmed either when its echo is that late.

use mdk_core::groups::NostrGroupConfigData;
use mdk_core::messages::MessageProcessingResult;
use mdk_core::{MDK, MdkConfig};
use mdk_memory_storage::MdkMemoryStorage;
use mdk_storage_traits::GroupId;
use mdk_storage_traits::groups::GroupStorage;
use mdk_storage_traits::messages::types::MessageState;
use nostr::{Event, EventBuilder, EventId, Keys, Kind, RelayUrl, UnsignedEvent};
use openmls_traits::OpenMlsProvider;

type M = MDK<MdkMemoryStorage>;

fn mk(config: &MdkConfig) -> M {
    MDK::builder(MdkMemoryStorage::default())
        .with_config(config.clone())
        .build()
}

fn key_package(mdk: &M, keys: &Keys) -> Event {
    let relays = vec![RelayUrl::parse("wss://test.relay").unwrap()];
    let (hex, tags, _) = mdk
        .create_key_package_for_event(&keys.public_key(), relays)
        .unwrap();
    EventBuilder::new(Kind::MlsKeyPackage, hex)
        .tags(tags)
        .sign_with_keys(keys)
        .unwrap()
}

fn rumor(keys: &Keys, content: &str) -> UnsignedEvent {
    EventBuilder::new(Kind::TextNote, content).build(keys.public_key())
}

/// Alice creates a group with Bob (both admins); Bob joins.
fn two_member_group(config: &MdkConfig) -> (Keys, M, Keys, M, GroupId) {
    let (alice_keys, bob_keys) = (Keys::generate(), Keys::generate());
    let (alice, bob) = (mk(config), mk(config));
    let created = alice
        .create_group(
            &alice_keys.public_key(),
            vec![key_package(&bob, &bob_keys)],
            NostrGroupConfigData::new(
                "g".to_string(),
                "d".to_string(),
                None,
                None,
                None,
                vec![RelayUrl::parse("wss://test.relay").unwrap()],
                vec![alice_keys.public_key(), bob_keys.public_key()],
            ),
        )
        .unwrap();
    let gid = created.group.mls_group_id.clone();
    alice.merge_pending_commit(&gid).unwrap();
    let welcome = bob
        .process_welcome(&EventId::all_zeros(), &created.welcome_rumors[0])
        .unwrap();
    bob.accept_welcome(&welcome).unwrap();
    (alice_keys, alice, bob_keys, bob, gid)
}

fn epoch(m: &M, gid: &GroupId) -> u64 {
    m.get_group(gid).unwrap().unwrap().epoch
}

/// Alice commits a self-update; both apply it from the relay.
fn advance(alice: &M, bob: &M, gid: &GroupId) {
    let commit = alice.self_update(gid).unwrap().evolution_event;
    for m in [alice, bob] {
        match m.process_message(&commit).unwrap() {
            MessageProcessingResult::Commit { .. } => {}
            other => panic!("commit expected, got {:?}", other),
        }
    }
}

/// Alice sends at epoch N, `delay` commits follow, then the message reaches Bob and the echo
/// reaches Alice. Returns the state of the stored message at (Bob, Alice).
fn late_by(config: &MdkConfig, delay: u64) -> (Option<MessageState>, Option<MessageState>) {
    let (alice_keys, alice, _bob_keys, bob, gid) = two_member_group(config);
    let mut r = rumor(&alice_keys, "sent before the commits");
    let rumor_id = r.id();
    let n = epoch(&alice, &gid);
    let late = alice.create_message(&gid, r).unwrap();
    for _ in 0..delay {
        advance(&alice, &bob, &gid);
    }
    assert_eq!(epoch(&bob, &gid), n + delay);
    assert_eq!(epoch(&alice, &gid), n + delay);

    // Nothing needed to open the message has been thrown away: the epoch's exporter secret is
    // still in both stores.
    for m in [&alice, &bob] {
        assert!(
            m.provider
                .storage()
                .get_group_exporter_secret(&gid, n)
                .unwrap()
                .is_some(),
            "exporter secret of the sending epoch is still stored"
        );
    }

    let at_bob = bob.process_message(&late);
    println!("delay {delay}: Bob: {at_bob:?}");
    let echo = alice.process_message(&late);
    println!("delay {delay}: Alice (echo): {echo:?}");
    // offered again: nothing changes
    let _ = bob.process_message(&late);
    let _ = alice.process_message(&late);

    (
        bob.get_message(&gid, &rumor_id).unwrap().map(|m| m.state),
        alice.get_message(&gid, &rumor_id).unwrap().map(|m| m.state),
    )
}

/// Control: the same history inside the first five past epochs works with the same config.
#[test]
fn control_five_epochs_late_is_delivered() {
    let config = MdkConfig {
        max_past_epochs: 8,
        ..Default::default()
    };
    let (bob, alice) = late_by(&config, 5);
    assert_eq!(bob, Some(MessageState::Processed));
    assert_eq!(alice, Some(MessageState::Processed));
}

/// C02: with max_past_epochs = 8 a message that is 7 epochs late is inside the configured
/// past-epoch window and must be stored, valid, at the receiver; the sender's own copy must be
/// confirmed by its echo.
#[test]
fn message_inside_configured_past_epoch_window_is_delivered() {
    let config = MdkConfig {
        max_past_epochs: 8,
        ..Default::default()
    };
    let (bob, alice) = late_by(&config, 7);
    assert_eq!(
        bob,
        Some(MessageState::Processed),
        "receiver: a message 7 epochs late with max_past_epochs = 8 must be stored and valid"
    );
    assert_eq!(
        alice,
        Some(MessageState::Processed),
        "sender: the own copy must be confirmed when the echo returns 7 epochs late"
    );
}

/// Extra evidence (needs `--features debug-examples` for the public `load_mls_group`): opened by
/// hand with the stored exporter secret of the sending epoch, the very same event is accepted
/// by Bob's OpenMLS group - only MDK's fixed 5-epoch lookback stands in the way.
#[cfg(feature = "debug-examples")]
#[test]
fn openmls_itself_accepts_the_late_message() {
    use nostr::nips::nip44;
    use nostr::{JsonUtil, SecretKey};
    use openmls::prelude::{MlsMessageIn, ProcessedMessageContent};
    use tls_codec::Deserialize;

    let config = MdkConfig {
        max_past_epochs: 8,
        ..Default::default()
    };
    let (alice_keys, alice, _bob_keys, bob, gid) = two_member_group(&config);
    let n = epoch(&alice, &gid);
    let late = alice
        .create_message(&gid, rumor(&alice_keys, "sent before the commits"))
        .unwrap();
    for _ in 0..7 {
        advance(&alice, &bob, &gid);
    }
    assert!(bob.process_message(&late).is_err(), "MDK refuses it");

    let secret = bob
        .provider
        .storage()
        .get_group_exporter_secret(&gid, n)
        .unwrap()
        .unwrap();
    let keys = Keys::new(SecretKey::from_slice(secret.secret.as_ref()).unwrap());
    let bytes = nip44::decrypt_to_bytes(keys.secret_key(), &keys.public_key, &late.content).unwrap();
    let mut group = bob.load_mls_group(&gid).unwrap().unwrap();
    let msg = MlsMessageIn::tls_deserialize_exact(&bytes)
        .unwrap()
        .try_into_protocol_message()
        .unwrap();
    let processed = group.process_message(&bob.provider, msg).unwrap();
    assert_eq!(processed.epoch().as_u64(), n);
    match processed.into_content() {
        ProcessedMessageContent::ApplicationMessage(app) => {
            let rumor = UnsignedEvent::from_json(app.into_bytes()).unwrap();
            assert_eq!(rumor.content, "sent before the commits");
        }
        _ => panic!("application message expected"),
    }
}
