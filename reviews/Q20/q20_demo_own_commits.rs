//! Candidate finding for C20: the commits a client makes itself (self_update / add_members /
//! update_group_data + merge_pending_commit, the documented flow) neither take a rollback
//! snapshot nor displace one. The snapshots a group keeps are then NOT those of its most recent
//! commits: with retention R the snapshots of the last R commits *received from others* stay,
//! however many own commits (epochs) ago that was - until another member commits R times, or,
//! on SQLite only, until a start-up after the TTL. The key material of those epochs outlives the
//! R-commit window, and a late "better" commit for such an old epoch rolls the group back
//! through more than R commits.

mod q20_common;
use q20_common::*;

use mdk_core::MDK;
use mdk_memory_storage::MdkMemoryStorage;
use mdk_sqlite_storage::MdkSqliteStorage;
use mdk_storage_traits::MdkStorageProvider;
use nostr::Keys;

fn now() -> u64 {
    nostr::Timestamp::now().as_secs()
}

fn mem(retention: usize) -> MDK<MdkMemoryStorage> {
    MDK::builder(MdkMemoryStorage::default()).with_config(cfg(retention, 604800)).build()
}

/// Snapshots kept must be those of the group's most recent `retention` commits.
fn kept_are_most_recent<S: MdkStorageProvider>(obs: MDK<S>, retention: usize, own_commits: usize) {
    let (ak, ok) = (Keys::generate(), Keys::generate());
    let a = mem(5);
    let g = make_group(&a, &ak, &[(&obs, &ok)], "g");
    // commits of another member: epochs 1 -> 2 -> 3
    for _ in 0..retention {
        let up = a.self_update(&g).unwrap();
        a.merge_pending_commit(&g).unwrap();
        obs.process_message(&up.evolution_event).unwrap();
    }
    println!("after {} commits of another member: epoch {} snapshots {:?}", retention, epoch(&obs, &g), snap_epochs(&obs, &g));
    // own commits, the documented flow: create, (publish), merge_pending_commit
    for _ in 0..own_commits {
        let up = obs.self_update(&g).unwrap();
        obs.merge_pending_commit(&g).unwrap();
        a.process_message(&up.evolution_event).unwrap();
    }
    let cur = epoch(&obs, &g);
    let kept = snap_epochs(&obs, &g);
    println!("after {own_commits} own commits: epoch {cur} snapshots {:?}", kept);
    assert!(kept.len() <= retention);
    // the commit that led from epoch e to e+1 is one of the last `retention` commits iff
    // e >= cur - retention
    for (_, e) in &kept {
        assert!(
            *e + retention as u64 >= cur,
            "retention {retention}, group at epoch {cur}: the snapshot of epoch {e} (commit {} of {cur}) is kept, \
             which is not one of the {retention} most recent commits; kept: {:?}",
            e + 1,
            kept
        );
    }
}

#[test]
fn demo_kept_are_most_recent_memory() {
    kept_are_most_recent(mem(2), 2, 6);
}

#[test]
fn demo_kept_are_most_recent_sqlite() {
    let dir = tempfile::tempdir().unwrap();
    let p = dir.path().join("o.db");
    kept_are_most_recent(
        MDK::builder(MdkSqliteStorage::new_unencrypted(&p).unwrap()).with_config(cfg(2, 604800)).build(),
        2,
        6,
    );
}

/// A rollback must not reach further back than the `retention` most recent commits.
fn rollback_depth<S: MdkStorageProvider>(obs: MDK<S>, retention: usize) {
    let (ak, ok, ck) = (Keys::generate(), Keys::generate(), Keys::generate());
    let a = mem(5);
    let c = mem(5);
    let g = make_group(&a, &ak, &[(&obs, &ok), (&c, &ck)], "g");
    let n = epoch(&obs, &g); // 1
    // c's competing commit for epoch n (earlier timestamp), delivered late
    let c_up = c.self_update(&g).unwrap();
    let c_ev = with_ts(&c_up.evolution_event, now() - 60);
    // a's commits for epochs n, n+1
    for i in 0..retention as u64 {
        let up = a.self_update(&g).unwrap();
        a.merge_pending_commit(&g).unwrap();
        obs.process_message(&with_ts(&up.evolution_event, now() - 30 + i)).unwrap();
    }
    // own commits
    for _ in 0..2 {
        obs.self_update(&g).unwrap();
        obs.merge_pending_commit(&g).unwrap();
    }
    let before = epoch(&obs, &g);
    println!("before: epoch {before} snapshots {:?}", snap_epochs(&obs, &g));
    let r = obs.process_message(&c_ev);
    let after = epoch(&obs, &g);
    println!("late better commit for epoch {n} -> {:?}; epoch {before} -> {after}; snapshots {:?}", r.as_ref().map(|_| ()).map_err(|e| e.to_string()), snap_epochs(&obs, &g));
    // commits undone = before - n (then one applied)
    assert!(
        before - n <= retention as u64 || after >= before,
        "retention {retention}: the rollback went from epoch {before} back to epoch {n}: {} commits undone",
        before - n
    );
}

#[test]
fn demo_rollback_depth_memory() {
    rollback_depth(mem(2), 2);
}

#[test]
fn demo_rollback_depth_sqlite() {
    let dir = tempfile::tempdir().unwrap();
    let p = dir.path().join("o.db");
    rollback_depth(
        MDK::builder(MdkSqliteStorage::new_unencrypted(&p).unwrap()).with_config(cfg(2, 604800)).build(),
        2,
    );
}
