//! H2..H5: rollbacks of depth 1..3 with retention 1..4, on both backends; restart in between.

mod q20_common;
use q20_common::*;

use mdk_core::MDK;
use mdk_memory_storage::MdkMemoryStorage;
use mdk_sqlite_storage::MdkSqliteStorage;
use mdk_storage_traits::{GroupId, MdkStorageProvider};
use nostr::Keys;

fn now() -> u64 {
    nostr::Timestamp::now().as_secs()
}

fn check<S: MdkStorageProvider>(obs: &MDK<S>, gid: &GroupId, retention: usize, what: &str) -> Vec<u64> {
    let se = snap_epochs(obs, gid);
    let cur = epoch(obs, gid);
    println!("[{what}] epoch {cur} snaps {:?}", se);
    assert!(
        se.iter().all(|(k, _)| k == "snap"),
        "[{what}] non-epoch snapshot left: {:?}",
        se
    );
    let eps: Vec<u64> = se.iter().map(|x| x.1).collect();
    assert!(eps.len() <= retention, "[{what}] more than {retention} snapshots: {:?}", eps);
    let mut d = eps.clone();
    d.dedup();
    assert_eq!(d.len(), eps.len(), "[{what}] two snapshots for one epoch: {:?}", eps);
    assert!(
        eps.iter().all(|e| *e < cur),
        "[{what}] snapshot at or above the current epoch {cur}: {:?}",
        eps
    );
    eps
}

/// obs observes; b and c are committers. depth = number of commits on the worse branch.
fn run<S: MdkStorageProvider>(
    mk: &dyn Fn() -> MDK<S>,
    reopen: Option<&dyn Fn(MDK<S>) -> MDK<S>>,
    retention: usize,
    depth: usize,
    pre: usize,
) {
    let (ok, bk, ck) = (Keys::generate(), Keys::generate(), Keys::generate());
    let mut obs = mk();
    let b = MDK::builder(MdkMemoryStorage::default()).with_config(cfg(5, 604800)).build();
    let c = MDK::builder(MdkMemoryStorage::default()).with_config(cfg(5, 604800)).build();
    // b creates the group so that obs only ever processes others' commits
    let gid = make_group(&b, &bk, &[(&obs, &ok), (&c, &ck)], "g");

    // pre commits by b, processed by obs and c
    let mut expected: Vec<u64> = vec![];
    for _ in 0..pre {
        let e = epoch(&obs, &gid);
        let up = b.self_update(&gid).unwrap();
        b.merge_pending_commit(&gid).unwrap();
        obs.process_message(&up.evolution_event).unwrap();
        c.process_message(&up.evolution_event).unwrap();
        expected.push(e);
    }
    let tail = |v: &Vec<u64>| -> Vec<u64> {
        let n = v.len().saturating_sub(retention);
        v[n..].to_vec()
    };
    assert_eq!(check(&obs, &gid, retention, "pre"), tail(&expected));

    let n = epoch(&obs, &gid);
    // c's commit at epoch n: the better one (earlier timestamp), delivered late
    let c1 = c.self_update(&gid).unwrap();
    let c1_ev = with_ts(&c1.evolution_event, now() - 20);
    // b's branch: depth commits
    let mut b_events = vec![];
    for i in 0..depth {
        let up = b.self_update(&gid).unwrap();
        b.merge_pending_commit(&gid).unwrap();
        b_events.push(with_ts(&up.evolution_event, now() - 10 + i as u64));
    }
    for (i, ev) in b_events.iter().enumerate() {
        let e = epoch(&obs, &gid);
        obs.process_message(ev).unwrap();
        assert_eq!(epoch(&obs, &gid), e + 1);
        expected.push(e);
        if i == 0 {
            if let Some(r) = reopen {
                obs = r(obs);
                // hydrated snapshots lose their race metadata (known): only the ones taken
                // after the restart can be rollback targets. So restart only when depth>1 and
                // expect the rollback to be refused for the hydrated epoch.
            }
        }
    }
    // The queue only ever holds `retention` entries: the model follows it
    expected = tail(&expected);
    assert_eq!(check(&obs, &gid, retention, "worse branch"), expected);

    // the better commit arrives
    let r = obs.process_message(&c1_ev);
    println!("better commit result: {:?}", r.as_ref().map(|_| "ok").map_err(|e| e.to_string()));
    let rolled_back = epoch(&obs, &gid) == n + 1 && depth >= 1 && {
        // did the rollback happen? then epoch is n+1 whatever depth; for depth 1 it is n+1 either way
        let names = snaps(&obs, &gid);
        names.iter().any(|(nm, _)| nm.ends_with(&c1_ev.id.to_hex()))
    };
    println!("rolled back: {rolled_back}");
    if rolled_back {
        expected.retain(|e| *e < n);
        expected.push(n);
        expected = tail(&expected);
    }
    assert_eq!(check(&obs, &gid, retention, "after better"), expected);

    // continue on the winning branch: c merges and commits twice more
    if rolled_back {
        c.merge_pending_commit(&gid).unwrap();
        for _ in 0..2 {
            let e = epoch(&obs, &gid);
            let up = c.self_update(&gid).unwrap();
            c.merge_pending_commit(&gid).unwrap();
            obs.process_message(&up.evolution_event).unwrap();
            expected.push(e);
        }
        expected = tail(&expected);
        assert_eq!(check(&obs, &gid, retention, "continued"), expected);
    }
}

#[test]
fn h02_memory_rollbacks() {
    for retention in 1..=4usize {
        for depth in 1..=3usize {
            for pre in [0usize, 2, 5] {
                println!("--- memory retention {retention} depth {depth} pre {pre}");
                run(
                    &|| MDK::builder(MdkMemoryStorage::default()).with_config(cfg(retention, 604800)).build(),
                    None,
                    retention,
                    depth,
                    pre,
                );
            }
        }
    }
}

#[test]
fn h03_sqlite_rollbacks() {
    for retention in 1..=4usize {
        for depth in 1..=3usize {
            for pre in [0usize, 2, 5] {
                println!("--- sqlite retention {retention} depth {depth} pre {pre}");
                let dir = tempfile::tempdir().unwrap();
                let p = dir.path().join("o.db");
                run(
                    &|| MDK::builder(MdkSqliteStorage::new_unencrypted(&p).unwrap()).with_config(cfg(retention, 604800)).build(),
                    None,
                    retention,
                    depth,
                    pre,
                );
            }
        }
    }
}

#[test]
fn h04_sqlite_rollbacks_with_restart() {
    for retention in 1..=4usize {
        for depth in 1..=3usize {
            for pre in [0usize, 2, 5] {
                println!("--- sqlite+restart retention {retention} depth {depth} pre {pre}");
                let dir = tempfile::tempdir().unwrap();
                let p = dir.path().join("o.db");
                let mk = || MDK::builder(MdkSqliteStorage::new_unencrypted(&p).unwrap()).with_config(cfg(retention, 604800)).build();
                run(
                    &mk,
                    Some(&|old| {
                        drop(old);
                        mk()
                    }),
                    retention,
                    depth,
                    pre,
                );
            }
        }
    }
}
