//! H8: randomized histories (main-branch commits, forks of depth 1..3 resolved by a late better
//! commit, own commits with/without echo, re-deliveries, restarts) on 1..3 groups, retention
//! 0..6, both backends, checked against a model of the snapshot queue.

mod q20_common;
use q20_common::*;

use std::collections::BTreeSet;

use mdk_core::MDK;
use mdk_memory_storage::MdkMemoryStorage;
use mdk_sqlite_storage::MdkSqliteStorage;
use mdk_storage_traits::{GroupId, MdkStorageProvider};
use nostr::{Event, Keys};

struct Rng(u64);
impl Rng {
    fn next(&mut self) -> u64 {
        self.0 ^= self.0 << 13;
        self.0 ^= self.0 >> 7;
        self.0 ^= self.0 << 17;
        self.0
    }
    fn below(&mut self, n: usize) -> usize {
        (self.next() % n as u64) as usize
    }
}

fn now() -> u64 {
    nostr::Timestamp::now().as_secs()
}

struct Member {
    keys: Keys,
    mdk: MDK<MdkMemoryStorage>,
    alive: bool,
}

#[derive(Clone, Debug)]
struct MSnap {
    epoch: u64,
    id: String,
    generation: u32,
}

struct World {
    gid: GroupId,
    members: Vec<Member>,
    main: usize,
    model: Vec<MSnap>,
    history: Vec<Event>,
}

fn push(model: &mut Vec<MSnap>, s: MSnap, r: usize) {
    model.push(s);
    while model.len() > r.max(1) {
        model.remove(0);
    }
}
fn enforce(model: &mut Vec<MSnap>, r: usize) {
    while model.len() > r {
        model.remove(0);
    }
}

fn check<S: MdkStorageProvider>(obs: &MDK<S>, w: &World, r: usize, what: &str) {
    let listed: BTreeSet<String> = snaps(obs, &w.gid).into_iter().map(|(n, _)| n).collect();
    let expect: BTreeSet<String> = w
        .model
        .iter()
        .map(|s| format!("snap_{}_{}_{}", hex::encode(w.gid.as_slice()), s.epoch, s.id))
        .collect();
    let short = |s: &BTreeSet<String>| -> Vec<String> {
        s.iter()
            .map(|n| {
                let p: Vec<&str> = n.split('_').collect();
                format!("{}:{}:{}", p[0], p.get(2).unwrap_or(&"?"), &p.last().unwrap()[..6.min(p.last().unwrap().len())])
            })
            .collect()
    };
    assert!(listed.len() <= r, "[{what}] MORE THAN RETENTION {r}: {:?}", short(&listed));
    assert_eq!(short(&listed), short(&expect), "[{what}] listing differs from model (retention {r}, obs epoch {})", epoch(obs, &w.gid));
}

fn new_world<S: MdkStorageProvider>(obs: &MDK<S>, obs_keys: &Keys, n_members: usize, name: &str) -> World {
    let mut members: Vec<Member> = (0..n_members)
        .map(|_| Member {
            keys: Keys::generate(),
            mdk: MDK::builder(MdkMemoryStorage::default()).with_config(cfg(6, 604800)).build(),
            alive: true,
        })
        .collect();
    let (first, rest) = members.split_first_mut().unwrap();
    let mut others: Vec<(&dyn Joiner, &Keys)> = vec![(obs, obs_keys)];
    for m in rest.iter() {
        others.push((&m.mdk, &m.keys));
    }
    let gid = make_group(&first.mdk, &first.keys, &others, name);
    World { gid, members, main: 0, model: vec![], history: vec![] }
}

fn run<S: MdkStorageProvider>(
    seed: u64,
    retention: usize,
    n_groups: usize,
    steps: usize,
    mk: &dyn Fn() -> MDK<S>,
    can_restart: bool,
) {
    let mut rng = Rng(seed.wrapping_mul(0x9E3779B97F4A7C15) | 1);
    let obs_keys = Keys::generate();
    let mut obs = Some(mk());
    let mut worlds: Vec<World> = (0..n_groups)
        .map(|i| new_world(obs.as_ref().unwrap(), &obs_keys, 6, &format!("g{i}")))
        .collect();
    let r = retention;
    let mut generation: u32 = 0;

    for step in 0..steps {
        let gi = rng.below(n_groups);
        let op = rng.below(100);
        let o = obs.as_ref().unwrap();
        let w = &mut worlds[gi];
        let alive: Vec<usize> = (0..w.members.len()).filter(|i| w.members[*i].alive).collect();
        let what;
        if op < 35 {
            // main-branch commit
            what = format!("seed {seed} step {step} g{gi} main commit");
            let e = epoch(o, &w.gid);
            let a = w.main;
            let up = if rng.below(2) == 0 {
                w.members[a].mdk.self_update(&w.gid).unwrap()
            } else {
                w.members[a]
                    .mdk
                    .update_group_data(&w.gid, mdk_core::groups::NostrGroupDataUpdate::new().name(format!("n{step}")))
                    .unwrap()
            };
            w.members[a].mdk.merge_pending_commit(&w.gid).unwrap();
            let ev = up.evolution_event;
            for i in &alive {
                if *i != a {
                    w.members[*i].mdk.process_message(&ev).unwrap();
                }
            }
            o.process_message(&ev).unwrap();
            assert_eq!(epoch(o, &w.gid), e + 1, "{what}");
            push(&mut w.model, MSnap { epoch: e, id: ev.id.to_hex(), generation }, r);
            enforce(&mut w.model, r);
            w.history.push(ev);
        } else if op < 60 && alive.len() >= 3 {
            // fork
            let d = 1 + rng.below(3);
            let n = epoch(o, &w.gid);
            let a = w.main;
            let cands: Vec<usize> = alive.iter().copied().filter(|i| *i != a).collect();
            let wi = cands[rng.below(cands.len())];
            what = format!("seed {seed} step {step} g{gi} fork depth {d} at epoch {n}");
            let a_up = w.members[a].mdk.self_update(&w.gid).unwrap();
            let a_ev = with_ts(&a_up.evolution_event, now() - 30);
            let mut w_evs = vec![];
            for i in 0..d {
                let up = w.members[wi].mdk.self_update(&w.gid).unwrap();
                w.members[wi].mdk.merge_pending_commit(&w.gid).unwrap();
                w_evs.push(with_ts(&up.evolution_event, now() - 20 + i as u64));
            }
            let restart_at = if can_restart && rng.below(4) == 0 { Some(rng.below(d)) } else { None };
            for (i, ev) in w_evs.iter().enumerate() {
                let o = obs.as_ref().unwrap();
                let e = epoch(o, &w.gid);
                o.process_message(ev).unwrap();
                assert_eq!(epoch(o, &w.gid), e + 1, "{what}");
                push(&mut w.model, MSnap { epoch: e, id: ev.id.to_hex(), generation }, r);
                enforce(&mut w.model, r);
                if restart_at == Some(i) {
                    drop(obs.take());
                    obs = Some(mk());
                    generation += 1;
                }
            }
            let o = obs.as_ref().unwrap();
            check(o, w, r, &format!("{what} (worse branch)"));
            let expect_rb = w.model.iter().rev().find(|s| s.epoch == n).is_some_and(|s| s.generation == generation);
            let res = o.process_message(&a_ev);
            let rb = snaps(o, &w.gid).iter().any(|(nm, _)| nm.ends_with(&a_ev.id.to_hex()))
                || (r == 0 && false);
            println!("{what}: better -> {:?}, rolled back {rb} (expected {expect_rb})", res.as_ref().map(|_| ()).map_err(|e| e.to_string()));
            assert_eq!(rb, expect_rb, "{what}: rollback expectation");
            if rb {
                assert_eq!(epoch(o, &w.gid), n + 1, "{what}");
                w.model.retain(|s| s.epoch < n);
                push(&mut w.model, MSnap { epoch: n, id: a_ev.id.to_hex(), generation }, r);
                enforce(&mut w.model, r);
                w.members[a].mdk.merge_pending_commit(&w.gid).unwrap();
                w.members[wi].alive = false;
                for i in &alive {
                    if *i != a && *i != wi {
                        w.members[*i].mdk.process_message(&a_ev).unwrap();
                    }
                }
            } else {
                w.members[a].alive = false;
                w.main = wi;
                for i in &alive {
                    if *i != a && *i != wi {
                        for ev in &w_evs {
                            w.members[*i].mdk.process_message(ev).unwrap();
                        }
                    }
                }
            }
            w.history.push(a_ev);
            w.history.extend(w_evs);
        } else if op < 75 {
            // own commit of the observer
            let variant = rng.below(3);
            what = format!("seed {seed} step {step} g{gi} own commit variant {variant}");
            let e = epoch(o, &w.gid);
            let up = o.self_update(&w.gid).unwrap();
            let ev = up.evolution_event;
            match variant {
                0 => o.merge_pending_commit(&w.gid).unwrap(),
                1 => {
                    o.process_message(&ev).unwrap();
                    o.merge_pending_commit(&w.gid).unwrap();
                    push(&mut w.model, MSnap { epoch: e, id: ev.id.to_hex(), generation }, r);
                    enforce(&mut w.model, r);
                }
                _ => {
                    o.merge_pending_commit(&w.gid).unwrap();
                    o.process_message(&ev).unwrap();
                }
            }
            assert_eq!(epoch(o, &w.gid), e + 1, "{what}");
            for i in &alive {
                w.members[*i].mdk.process_message(&ev).unwrap();
            }
            w.history.push(ev);
        } else if op < 90 && !w.history.is_empty() {
            // re-delivery of an old event
            let ev = w.history[rng.below(w.history.len())].clone();
            what = format!("seed {seed} step {step} g{gi} redelivery");
            let e = epoch(o, &w.gid);
            let _ = o.process_message(&ev);
            assert_eq!(epoch(o, &w.gid), e, "{what}: epoch moved on a re-delivery");
        } else if can_restart {
            what = format!("seed {seed} step {step} restart");
            drop(obs.take());
            obs = Some(mk());
            generation += 1;
        } else {
            continue;
        }
        let o = obs.as_ref().unwrap();
        for w in &worlds {
            check(o, w, r, &what);
        }
    }
}

#[test]
fn h08_random_memory() {
    let mut seed = 1;
    for retention in 0..=6usize {
        for n_groups in 1..=3usize {
            seed += 1;
            println!("=== memory seed {seed} retention {retention} groups {n_groups}");
            run(
                seed,
                retention,
                n_groups,
                40,
                &|| MDK::builder(MdkMemoryStorage::default()).with_config(cfg(retention, 604800)).build(),
                false,
            );
        }
    }
}

#[test]
fn h08_random_sqlite() {
    let mut seed = 100;
    for retention in 0..=6usize {
        for n_groups in 1..=3usize {
            seed += 1;
            println!("=== sqlite seed {seed} retention {retention} groups {n_groups}");
            let dir = tempfile::tempdir().unwrap();
            let p = dir.path().join("o.db");
            run(
                seed,
                retention,
                n_groups,
                40,
                &|| MDK::builder(MdkSqliteStorage::new_unencrypted(&p).unwrap()).with_config(cfg(retention, 604800)).build(),
                true,
            );
        }
    }
}
