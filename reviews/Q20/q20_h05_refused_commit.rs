//! H5: a commit that the receiver's storage refuses (group name above the storage limit) after
//! the snapshot was taken. H6: a commit that evicts the receiver. H7: own-commit echo path.

mod q20_common;
use q20_common::*;

use mdk_core::MDK;
use mdk_core::groups::NostrGroupDataUpdate;
use mdk_memory_storage::{MdkMemoryStorage, ValidationLimits};
use mdk_sqlite_storage::MdkSqliteStorage;
use mdk_storage_traits::{GroupId, MdkStorageProvider};
use nostr::Keys;

fn big_alice(retention: usize) -> MDK<MdkMemoryStorage> {
    MDK::builder(MdkMemoryStorage::with_limits(
        ValidationLimits::default().with_max_group_name_length(10_000),
    ))
    .with_config(cfg(retention, 604800))
    .build()
}

fn show<S: MdkStorageProvider>(m: &MDK<S>, gid: &GroupId, what: &str) -> Vec<(String, u64)> {
    let se = snap_epochs(m, gid);
    println!("[{what}] epoch {} snaps {:?}", epoch(m, gid), se);
    se
}

fn refused<S: MdkStorageProvider>(bob: MDK<S>, retention: usize) {
    let (ak, bk) = (Keys::generate(), Keys::generate());
    let alice = big_alice(5);
    let gid = make_group(&alice, &ak, &[(&bob, &bk)], "g");
    for _ in 0..3 {
        let up = alice.self_update(&gid).unwrap();
        alice.merge_pending_commit(&gid).unwrap();
        bob.process_message(&up.evolution_event).unwrap();
    }
    let before = show(&bob, &gid, "before");
    let e0 = epoch(&bob, &gid);
    let up = alice
        .update_group_data(&gid, NostrGroupDataUpdate::new().name("x".repeat(300)))
        .unwrap();
    alice.merge_pending_commit(&gid).unwrap();
    let r = bob.process_message(&up.evolution_event);
    println!("refused commit -> {:?}", r.as_ref().map(|_| ()).map_err(|e| e.to_string()));
    let after = show(&bob, &gid, "after refused");
    assert_eq!(epoch(&bob, &gid), e0, "refused commit must leave the group as it was");
    assert!(after.len() <= retention);
    assert!(after.iter().all(|(k, e)| k == "snap" && *e < e0), "{:?}", after);
    println!("before {:?} after {:?}", before, after);
    // the same commit again
    let r = bob.process_message(&up.evolution_event);
    println!("refused commit again -> {:?}", r.as_ref().map(|_| ()).map_err(|e| e.to_string()));
    let after2 = show(&bob, &gid, "after refused twice");
    assert_eq!(after, after2);
}

#[test]
fn h05_refused_memory() {
    for r in 0..=3 {
        println!("--- retention {r}");
        refused(
            MDK::builder(MdkMemoryStorage::default()).with_config(cfg(r, 604800)).build(),
            r,
        );
    }
}

#[test]
fn h05_refused_sqlite() {
    for r in 0..=3 {
        println!("--- retention {r}");
        let dir = tempfile::tempdir().unwrap();
        refused(
            MDK::builder(MdkSqliteStorage::new_unencrypted(dir.path().join("b.db")).unwrap())
                .with_config(cfg(r, 604800))
                .build(),
            r,
        );
    }
}

fn evicted<S: MdkStorageProvider>(bob: MDK<S>, retention: usize) {
    let (ak, bk, ck) = (Keys::generate(), Keys::generate(), Keys::generate());
    let alice = big_alice(5);
    let carol = big_alice(5);
    let gid = make_group(&alice, &ak, &[(&bob, &bk), (&carol, &ck)], "g");
    for _ in 0..3 {
        let up = alice.self_update(&gid).unwrap();
        alice.merge_pending_commit(&gid).unwrap();
        bob.process_message(&up.evolution_event).unwrap();
    }
    show(&bob, &gid, "before");
    let up = alice.remove_members(&gid, &[bk.public_key()]).unwrap();
    alice.merge_pending_commit(&gid).unwrap();
    let r = bob.process_message(&up.evolution_event);
    println!("evicting commit -> {:?}", r.as_ref().map(|_| ()).map_err(|e| e.to_string()));
    let after = show(&bob, &gid, "after eviction");
    println!("state {:?}", bob.get_group(&gid).unwrap().unwrap().state);
    assert!(after.len() <= retention, "{:?}", after);
    // further commits of the group
    let up = alice.self_update(&gid).unwrap();
    alice.merge_pending_commit(&gid).unwrap();
    let r = bob.process_message(&up.evolution_event);
    println!("commit after eviction -> {:?}", r.as_ref().map(|_| ()).map_err(|e| e.to_string()));
    let after = show(&bob, &gid, "after eviction + 1");
    assert!(after.len() <= retention, "{:?}", after);
}

#[test]
fn h06_evicted_memory() {
    for r in 0..=3 {
        println!("--- retention {r}");
        evicted(MDK::builder(MdkMemoryStorage::default()).with_config(cfg(r, 604800)).build(), r);
    }
}

#[test]
fn h06_evicted_sqlite() {
    for r in 0..=3 {
        println!("--- retention {r}");
        let dir = tempfile::tempdir().unwrap();
        evicted(
            MDK::builder(MdkSqliteStorage::new_unencrypted(dir.path().join("b.db")).unwrap())
                .with_config(cfg(r, 604800))
                .build(),
            r,
        );
    }
}

/// Own-commit echo: the committer processes its own evolution event before / after / instead of
/// merge_pending_commit.
fn echo<S: MdkStorageProvider>(alice: MDK<S>, retention: usize) {
    let (ak, bk) = (Keys::generate(), Keys::generate());
    let bob = big_alice(5);
    let gid = make_group(&alice, &ak, &[(&bob, &bk)], "g");
    for i in 0..6 {
        let e = epoch(&alice, &gid);
        let up = alice.self_update(&gid).unwrap();
        match i % 3 {
            0 => {
                // echo first, then merge
                alice.process_message(&up.evolution_event).unwrap();
                alice.merge_pending_commit(&gid).unwrap();
            }
            1 => {
                // merge first, then echo
                alice.merge_pending_commit(&gid).unwrap();
                alice.process_message(&up.evolution_event).unwrap();
            }
            _ => {
                // echo twice
                alice.process_message(&up.evolution_event).unwrap();
                alice.process_message(&up.evolution_event).unwrap();
            }
        }
        assert_eq!(epoch(&alice, &gid), e + 1);
        let s = show(&alice, &gid, &format!("step {i}"));
        assert!(s.len() <= retention, "{:?}", s);
        assert!(s.iter().all(|(k, e)| k == "snap" && *e < epoch(&alice, &gid)), "{:?}", s);
        bob.process_message(&up.evolution_event).unwrap();
    }
}

#[test]
fn h07_echo_memory() {
    for r in 0..=3 {
        println!("--- retention {r}");
        echo(MDK::builder(MdkMemoryStorage::default()).with_config(cfg(r, 604800)).build(), r);
    }
}

#[test]
fn h07_echo_sqlite() {
    for r in 0..=3 {
        println!("--- retention {r}");
        let dir = tempfile::tempdir().unwrap();
        echo(
            MDK::builder(MdkSqliteStorage::new_unencrypted(dir.path().join("b.db")).unwrap())
                .with_config(cfg(r, 604800))
                .build(),
            r,
        );
    }
}
