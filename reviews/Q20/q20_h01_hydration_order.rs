//! H1: after a restart (SQLite) the snapshot queue is rebuilt from `list_group_snapshots`,
//! which orders by created_at (seconds) only. Snapshots taken within one second come back in
//! an order that is not the commit order (e.g. epoch "10" before "9"), so the next commit
//! releases a snapshot that is NOT the oldest one: the snapshots kept are not those of the
//! most recent commits.

mod q20_common;
use q20_common::*;

use mdk_core::MDK;
use mdk_sqlite_storage::MdkSqliteStorage;
use mdk_memory_storage::MdkMemoryStorage;
use nostr::Keys;

#[test]
fn h01_sqlite_hydration_order_same_second() {
    let dir = tempfile::tempdir().unwrap();
    let bob_path = dir.path().join("bob.db");
    let retention = 4usize;

    let alice_keys = Keys::generate();
    let bob_keys = Keys::generate();
    let alice = MDK::builder(MdkMemoryStorage::default())
        .with_config(cfg(retention, 604800))
        .build();
    let bob = MDK::builder(MdkSqliteStorage::new_unencrypted(&bob_path).unwrap())
        .with_config(cfg(retention, 604800))
        .build();

    let gid = make_group(&alice, &alice_keys, &[(&bob, &bob_keys)], "g");
    assert_eq!(epoch(&bob, &gid), 1);

    // Alice commits until Bob is at epoch 11 (snapshots for epochs 1..=10 taken, 7..=10 kept).
    let mut n = 0;
    while epoch(&bob, &gid) < 11 {
        let up = alice.self_update(&gid).expect("self_update");
        alice.merge_pending_commit(&gid).expect("merge");
        bob.process_message(&up.evolution_event).expect("bob process");
        n += 1;
    }
    println!("commits processed by bob: {n}");
    let listed = snaps(&bob, &gid);
    println!("before restart: {:?}", snap_epochs(&bob, &gid));
    println!(
        "created_at values: {:?}",
        listed.iter().map(|(_, t)| *t).collect::<Vec<_>>()
    );
    assert_eq!(snap_epochs(&bob, &gid).iter().map(|x| x.1).collect::<Vec<_>>(), vec![7, 8, 9, 10]);

    // Restart Bob.
    drop(bob);
    let bob = MDK::builder(MdkSqliteStorage::new_unencrypted(&bob_path).unwrap())
        .with_config(cfg(retention, 604800))
        .build();
    println!(
        "listed order after restart: {:?}",
        snaps(&bob, &gid)
            .iter()
            .map(|(n, t)| (n.split('_').nth(2).unwrap().to_string(), *t))
            .collect::<Vec<_>>()
    );

    // One more commit.
    let up = alice.self_update(&gid).expect("self_update");
    alice.merge_pending_commit(&gid).expect("merge");
    bob.process_message(&up.evolution_event).expect("bob process");
    assert_eq!(epoch(&bob, &gid), 12);

    let kept: Vec<u64> = snap_epochs(&bob, &gid).iter().map(|x| x.1).collect();
    println!("after restart + 1 commit: {:?}", kept);
    assert_eq!(
        kept,
        vec![8, 9, 10, 11],
        "the snapshots kept must be those of the {retention} most recent commits"
    );
}
