//! H9: TTL with real ages (SQLite). H10: merge_pending_commit guard on failure / no pending
//! commit / inactive group. H11: nostr-group-id swap between two groups makes a rollback fail.
//! H12: a better commit that is refused after the rollback. H13: stale own echo + new pending.

mod q20_common;
use q20_common::*;

use mdk_core::MDK;
use mdk_core::groups::NostrGroupDataUpdate;
use mdk_memory_storage::{MdkMemoryStorage, ValidationLimits};
use mdk_sqlite_storage::MdkSqliteStorage;
use mdk_storage_traits::{GroupId, MdkStorageProvider};
use nostr::Keys;

fn now() -> u64 {
    nostr::Timestamp::now().as_secs()
}

fn mem(retention: usize) -> MDK<MdkMemoryStorage> {
    MDK::builder(MdkMemoryStorage::default()).with_config(cfg(retention, 604800)).build()
}
fn big(retention: usize) -> MDK<MdkMemoryStorage> {
    MDK::builder(MdkMemoryStorage::with_limits(
        ValidationLimits::default().with_max_group_name_length(10_000),
    ))
    .with_config(cfg(retention, 604800))
    .build()
}

fn show<S: MdkStorageProvider>(m: &MDK<S>, gid: &GroupId, what: &str) -> Vec<(String, u64)> {
    let se = snap_epochs(m, gid);
    println!("[{what}] epoch {} snaps {:?}", epoch(m, gid), se);
    se
}

#[test]
fn h09_ttl_real_ages() {
    let dir = tempfile::tempdir().unwrap();
    let p = dir.path().join("b.db");
    let (ak, bk) = (Keys::generate(), Keys::generate());
    let alice = mem(5);
    let bob = MDK::builder(MdkSqliteStorage::new_unencrypted(&p).unwrap()).with_config(cfg(6, 604800)).build();
    let gid = make_group(&alice, &ak, &[(&bob, &bk)], "g");
    let step = |bob: &MDK<MdkSqliteStorage>| {
        let up = alice.self_update(&gid).unwrap();
        alice.merge_pending_commit(&gid).unwrap();
        bob.process_message(&up.evolution_event).unwrap();
    };
    step(&bob);
    step(&bob);
    std::thread::sleep(std::time::Duration::from_millis(2100));
    step(&bob);
    std::thread::sleep(std::time::Duration::from_millis(2100));
    step(&bob);
    let listed = snaps(&bob, &gid);
    let t_now = now();
    println!("ages: {:?}", listed.iter().map(|(n, t)| (n.split('_').nth(2).unwrap().to_string(), t_now - t)).collect::<Vec<_>>());
    drop(bob);
    // ttl 3: ages ~4,4 removed; ~2 and ~0 kept
    for ttl in [u64::MAX, 100, 5, 3, 1, 0] {
        let t_now = now();
        let before = {
            let s = MdkSqliteStorage::new_unencrypted(&p).unwrap();
            s.list_group_snapshots(&gid).unwrap()
        };
        let bob = MDK::builder(MdkSqliteStorage::new_unencrypted(&p).unwrap()).with_config(cfg(6, ttl)).build();
        let after = snaps(&bob, &gid);
        let t_after = now();
        println!("ttl {ttl}: before {} after {} ages {:?}", before.len(), after.len(), after.iter().map(|(_, t)| t_now - t).collect::<Vec<_>>());
        for (n, t) in &before {
            let survived = after.iter().any(|(m, _)| m == n);
            if t_now.saturating_sub(*t) > ttl && t_after == t_now {
                assert!(!survived, "ttl {ttl}: snapshot of age {} survived the start-up", t_now - t);
            }
            if t_after.saturating_sub(*t) <= ttl {
                assert!(survived, "ttl {ttl}: snapshot of age {} was removed", t_now - t);
            }
        }
        // queue after prune + one commit: no ghosts
        step(&bob);
        let after2 = snaps(&bob, &gid);
        println!("   after one more commit: {:?}", snap_epochs(&bob, &gid));
        assert!(after2.len() <= 6);
        drop(bob);
    }
}

fn guard_case<S: MdkStorageProvider>(alice: MDK<S>) {
    let (ak, bk) = (Keys::generate(), Keys::generate());
    let bob = big(5);
    let gid = make_group(&alice, &ak, &[(&bob, &bk)], "g");
    // own commit the own storage refuses
    let r = alice.update_group_data(&gid, NostrGroupDataUpdate::new().name("y".repeat(300)));
    println!("update_group_data(300 bytes) -> {:?}", r.as_ref().map(|_| ()).map_err(|e| e.to_string()));
    if r.is_ok() {
        let m = alice.merge_pending_commit(&gid);
        println!("merge -> {:?}", m.as_ref().map(|_| ()).map_err(|e| e.to_string()));
        let s = show(&alice, &gid, "after failed merge");
        assert!(s.is_empty(), "guard left behind after a failed merge: {:?}", s);
        let m = alice.merge_pending_commit(&gid);
        println!("merge again -> {:?}", m.as_ref().map(|_| ()).map_err(|e| e.to_string()));
        let s = show(&alice, &gid, "after failed merge 2");
        assert!(s.is_empty(), "guard left behind after a failed merge: {:?}", s);
        alice.clear_pending_commit(&gid).unwrap();
    }
    // no pending commit
    alice.merge_pending_commit(&gid).unwrap();
    assert!(show(&alice, &gid, "merge without pending").is_empty());
    // evicted, then merge
    let up = bob.remove_members(&gid, &[ak.public_key()]).unwrap();
    bob.merge_pending_commit(&gid).unwrap();
    alice.process_message(&up.evolution_event).unwrap();
    show(&alice, &gid, "after eviction");
    let m = alice.merge_pending_commit(&gid);
    println!("merge on evicted group -> {:?}", m.as_ref().map(|_| ()).map_err(|e| e.to_string()));
    let s = show(&alice, &gid, "after merge on evicted group");
    assert!(s.iter().all(|(k, _)| k == "snap"), "guard left: {:?}", s);
    let m = alice.self_update(&gid);
    println!("self_update on evicted group -> {:?}", m.as_ref().map(|_| ()).map_err(|e| e.to_string()));
    let s = show(&alice, &gid, "after self_update on evicted group");
    assert!(s.iter().all(|(k, _)| k == "snap"), "guard left: {:?}", s);
}

#[test]
fn h10_guard_memory() {
    guard_case(mem(3));
}
#[test]
fn h10_guard_sqlite() {
    let dir = tempfile::tempdir().unwrap();
    guard_case(
        MDK::builder(MdkSqliteStorage::new_unencrypted(dir.path().join("a.db")).unwrap())
            .with_config(cfg(3, 604800))
            .build(),
    );
}

/// Two groups of the observer swap a nostr group id, then a better commit for the first group
/// asks for a rollback to a snapshot holding the id the second group now owns.
fn swap_case<S: MdkStorageProvider>(obs: MDK<S>, retention: usize) {
    let (ok, ak, ck, dk) = (Keys::generate(), Keys::generate(), Keys::generate(), Keys::generate());
    let a = mem(5);
    let c = mem(5);
    let d = mem(5);
    let g1 = make_group(&a, &ak, &[(&obs, &ok), (&c, &ck)], "g1");
    let g2 = make_group(&d, &dk, &[(&obs, &ok)], "g2");
    let id_a = obs.get_group(&g1).unwrap().unwrap().nostr_group_id;
    let n = epoch(&obs, &g1);
    // c: the better commit for epoch n of g1, delivered late
    let c_up = c.self_update(&g1).unwrap();
    let c_ev = with_ts(&c_up.evolution_event, now() - 30);
    // a: changes g1's nostr id (worse commit)
    let a_up = a.update_group_data(&g1, NostrGroupDataUpdate::new().nostr_group_id([7u8; 32])).unwrap();
    a.merge_pending_commit(&g1).unwrap();
    obs.process_message(&with_ts(&a_up.evolution_event, now() - 10)).unwrap();
    assert_eq!(obs.get_group(&g1).unwrap().unwrap().nostr_group_id, [7u8; 32]);
    show(&obs, &g1, "g1 after id change");
    // d: g2 takes the id g1 had
    let d_up = d.update_group_data(&g2, NostrGroupDataUpdate::new().nostr_group_id(id_a)).unwrap();
    d.merge_pending_commit(&g2).unwrap();
    let r = obs.process_message(&d_up.evolution_event);
    println!("g2 takes g1's former id -> {:?}", r.as_ref().map(|_| ()).map_err(|e| e.to_string()));
    show(&obs, &g2, "g2 after taking the id");
    // a continues g1
    let a2 = a.self_update(&g1).unwrap();
    a.merge_pending_commit(&g1).unwrap();
    obs.process_message(&a2.evolution_event).unwrap();
    show(&obs, &g1, "g1 before better");
    // the better commit arrives (tagged with the former id of g1, now g2's)
    let r = obs.process_message(&c_ev);
    println!("better commit -> {:?}", r.as_ref().map(|_| ()).map_err(|e| e.to_string()));
    let s1 = show(&obs, &g1, "g1 after better");
    let s2 = show(&obs, &g2, "g2 after better");
    assert!(s1.len() <= retention && s2.len() <= retention);
    assert!(s1.iter().all(|(k, e)| k == "snap" && *e < epoch(&obs, &g1)), "{:?}", s1);
    let _ = n;
}

#[test]
fn h11_swap_memory() {
    for r in 1..=3 {
        swap_case(mem(r), r);
    }
}
#[test]
fn h11_swap_sqlite() {
    for r in 1..=3 {
        let dir = tempfile::tempdir().unwrap();
        swap_case(
            MDK::builder(MdkSqliteStorage::new_unencrypted(dir.path().join("a.db")).unwrap())
                .with_config(cfg(r, 604800))
                .build(),
            r,
        );
    }
}

/// The better commit is one the observer's storage refuses.
fn refused_better<S: MdkStorageProvider>(obs: MDK<S>, retention: usize) {
    let (ok, ak, ck) = (Keys::generate(), Keys::generate(), Keys::generate());
    let a = big(5);
    let c = big(5);
    let g = make_group(&a, &ak, &[(&obs, &ok), (&c, &ck)], "g");
    for _ in 0..2 {
        let up = a.self_update(&g).unwrap();
        a.merge_pending_commit(&g).unwrap();
        obs.process_message(&up.evolution_event).unwrap();
        c.process_message(&up.evolution_event).unwrap();
    }
    let n = epoch(&obs, &g);
    let c_up = c.update_group_data(&g, NostrGroupDataUpdate::new().name("z".repeat(300))).unwrap();
    let c_ev = with_ts(&c_up.evolution_event, now() - 30);
    for i in 0..2 {
        let up = a.self_update(&g).unwrap();
        a.merge_pending_commit(&g).unwrap();
        obs.process_message(&with_ts(&up.evolution_event, now() - 10 + i)).unwrap();
    }
    show(&obs, &g, "before refused better");
    let r = obs.process_message(&c_ev);
    println!("refused better commit -> {:?}", r.as_ref().map(|_| ()).map_err(|e| e.to_string()));
    let s = show(&obs, &g, "after refused better");
    assert!(s.len() <= retention);
    let cur = epoch(&obs, &g);
    assert!(s.iter().all(|(k, e)| k == "snap" && *e < cur), "snapshot at/above the current epoch {cur}: {:?} (n = {n})", s);
    let r = obs.process_message(&c_ev);
    println!("refused better commit again -> {:?}", r.as_ref().map(|_| ()).map_err(|e| e.to_string()));
    let s2 = show(&obs, &g, "after refused better again");
    assert_eq!(s, s2);
}

#[test]
fn h12_refused_better_memory() {
    for r in 1..=3 {
        refused_better(mem(r), r);
    }
}
#[test]
fn h12_refused_better_sqlite() {
    for r in 1..=3 {
        let dir = tempfile::tempdir().unwrap();
        refused_better(
            MDK::builder(MdkSqliteStorage::new_unencrypted(dir.path().join("a.db")).unwrap())
                .with_config(cfg(r, 604800))
                .build(),
            r,
        );
    }
}

/// An old own commit (merged through merge_pending_commit) is echoed late, while a new own
/// commit is pending.
#[test]
fn h13_stale_echo_with_new_pending() {
    let (ak, bk) = (Keys::generate(), Keys::generate());
    let alice = mem(3);
    let bob = mem(3);
    let g = make_group(&alice, &ak, &[(&bob, &bk)], "g");
    let p1 = alice.self_update(&g).unwrap();
    alice.merge_pending_commit(&g).unwrap();
    bob.process_message(&p1.evolution_event).unwrap();
    let e = epoch(&alice, &g);
    let _p2 = alice.self_update(&g).unwrap(); // pending, not yet published/merged
    show(&alice, &g, "before stale echo");
    let r = alice.process_message(&p1.evolution_event);
    println!("stale echo -> {:?}", r.as_ref().map(|_| ()).map_err(|e| e.to_string()));
    let s = show(&alice, &g, "after stale echo");
    println!("epoch before {e}, after {}", epoch(&alice, &g));
    println!("names: {:?}, p1 id {}", snaps(&alice, &g), p1.evolution_event.id.to_hex());
    assert!(s.len() <= 3);
}

/// Own echo of a commit the own storage refuses (OwnCommitPending path), then merge.
fn own_echo_refused<S: MdkStorageProvider>(alice: MDK<S>) {
    let (ak, bk) = (Keys::generate(), Keys::generate());
    let bob = big(5);
    let gid = make_group(&alice, &ak, &[(&bob, &bk)], "g");
    let up = bob.self_update(&gid).unwrap();
    bob.merge_pending_commit(&gid).unwrap();
    alice.process_message(&up.evolution_event).unwrap();
    show(&alice, &gid, "start");
    let e = epoch(&alice, &gid);
    let up = alice.update_group_data(&gid, NostrGroupDataUpdate::new().name("y".repeat(300))).unwrap();
    let r = alice.process_message(&up.evolution_event);
    println!("own echo refused -> {:?}", r.as_ref().map(|_| ()).map_err(|e| e.to_string()));
    let s = show(&alice, &gid, "after own echo refused");
    assert_eq!(epoch(&alice, &gid), e);
    assert!(s.iter().all(|(k, x)| k == "snap" && *x < e), "{:?}", s);
    let r = alice.process_message(&up.evolution_event);
    println!("own echo refused again -> {:?}", r.as_ref().map(|_| ()).map_err(|e| e.to_string()));
    let s = show(&alice, &gid, "after own echo refused again");
    assert!(s.iter().all(|(k, x)| k == "snap" && *x < e), "{:?}", s);
    let m = alice.merge_pending_commit(&gid);
    println!("merge -> {:?}", m.as_ref().map(|_| ()).map_err(|e| e.to_string()));
    let s = show(&alice, &gid, "after merge");
    assert!(s.iter().all(|(k, x)| k == "snap" && *x < e), "{:?}", s);
}

#[test]
fn h14_own_echo_refused_memory() {
    own_echo_refused(mem(2));
}
#[test]
fn h14_own_echo_refused_sqlite() {
    let dir = tempfile::tempdir().unwrap();
    own_echo_refused(
        MDK::builder(MdkSqliteStorage::new_unencrypted(dir.path().join("a.db")).unwrap())
            .with_config(cfg(2, 604800))
            .build(),
    );
}

/// The better commit is the observer's own pending commit.
fn own_better<S: MdkStorageProvider>(obs: MDK<S>, retention: usize, new_pending: bool) {
    let (ok, ak) = (Keys::generate(), Keys::generate());
    let a = mem(5);
    let g = make_group(&a, &ak, &[(&obs, &ok)], "g");
    for _ in 0..2 {
        let up = a.self_update(&g).unwrap();
        a.merge_pending_commit(&g).unwrap();
        obs.process_message(&up.evolution_event).unwrap();
    }
    let n = epoch(&obs, &g);
    let p = obs.self_update(&g).unwrap();
    let p_ev = p.evolution_event.clone();
    let x = a.self_update(&g).unwrap();
    a.merge_pending_commit(&g).unwrap();
    let x_ev = with_ts(&x.evolution_event, p_ev.created_at.as_secs() + 5);
    obs.process_message(&x_ev).unwrap();
    assert_eq!(epoch(&obs, &g), n + 1);
    if new_pending {
        let _q = obs.self_update(&g).unwrap();
    }
    show(&obs, &g, "after x");
    let r = obs.process_message(&p_ev);
    println!("own better echo -> {:?}", r.as_ref().map(|_| ()).map_err(|e| e.to_string()));
    let s = show(&obs, &g, "after own better echo");
    let m = obs.merge_pending_commit(&g);
    println!("merge -> {:?}", m.as_ref().map(|_| ()).map_err(|e| e.to_string()));
    let s2 = show(&obs, &g, "after merge");
    assert!(s.len() <= retention && s2.len() <= retention);
    let cur = epoch(&obs, &g);
    assert!(s2.iter().all(|(k, e)| k == "snap" && *e < cur), "{:?}", s2);
    let mut d: Vec<u64> = s2.iter().map(|x| x.1).collect();
    d.dedup();
    assert_eq!(d.len(), s2.len());
}

#[test]
fn h15_own_better() {
    for r in 1..=3 {
        for np in [false, true] {
            println!("--- memory r {r} new_pending {np}");
            own_better(mem(r), r, np);
            println!("--- sqlite r {r} new_pending {np}");
            let dir = tempfile::tempdir().unwrap();
            own_better(
                MDK::builder(MdkSqliteStorage::new_unencrypted(dir.path().join("a.db")).unwrap())
                    .with_config(cfg(r, 604800))
                    .build(),
                r,
                np,
            );
        }
    }
}
