//! Shared helpers for the q20_* probes (rollback snapshots bounded in number and age).
#![allow(dead_code)]

use mdk_core::groups::NostrGroupConfigData;
use mdk_core::{MDK, MdkConfig};
use mdk_storage_traits::{GroupId, MdkStorageProvider};
use nostr::{Event, EventBuilder, Keys, Kind, PublicKey, RelayUrl};
use openmls_traits::OpenMlsProvider;

pub fn cfg(retention: usize, ttl: u64) -> MdkConfig {
    MdkConfig {
        epoch_snapshot_retention: retention,
        snapshot_ttl_seconds: ttl,
        ..Default::default()
    }
}

pub fn kp<S: MdkStorageProvider>(mdk: &MDK<S>, keys: &Keys) -> Event {
    let relays = vec![RelayUrl::parse("wss://test.relay").unwrap()];
    let (hex, tags, _) = mdk
        .create_key_package_for_event(&keys.public_key(), relays)
        .expect("kp");
    EventBuilder::new(Kind::MlsKeyPackage, hex)
        .tags(tags)
        .sign_with_keys(keys)
        .expect("sign")
}

pub fn group_cfg(admins: Vec<PublicKey>, name: &str) -> NostrGroupConfigData {
    NostrGroupConfigData::new(
        name.to_string(),
        "d".to_string(),
        None,
        None,
        None,
        vec![RelayUrl::parse("wss://test.relay").unwrap()],
        admins,
    )
}

pub fn storage<S: MdkStorageProvider>(mdk: &MDK<S>) -> &S {
    mdk.provider.storage()
}

/// Snapshot names of the group, as the storage lists them.
pub fn snaps<S: MdkStorageProvider>(mdk: &MDK<S>, gid: &GroupId) -> Vec<(String, u64)> {
    storage(mdk).list_group_snapshots(gid).expect("list")
}

/// (kind, epoch) per snapshot: kind "snap" / "merge" / other.
pub fn snap_epochs<S: MdkStorageProvider>(mdk: &MDK<S>, gid: &GroupId) -> Vec<(String, u64)> {
    let mut v: Vec<(String, u64)> = snaps(mdk, gid)
        .into_iter()
        .map(|(n, _)| {
            let parts: Vec<&str> = n.split('_').collect();
            let kind = parts[0].to_string();
            let epoch = parts.get(2).and_then(|e| e.parse().ok()).unwrap_or(u64::MAX);
            (kind, epoch)
        })
        .collect();
    v.sort();
    v
}

pub fn epoch<S: MdkStorageProvider>(mdk: &MDK<S>, gid: &GroupId) -> u64 {
    mdk.get_group(gid).unwrap().unwrap().epoch
}

/// Creator creates a group with the given members (all admins), merges, members join.
pub fn make_group<S1: MdkStorageProvider>(
    creator: &MDK<S1>,
    creator_keys: &Keys,
    others: &[(&dyn Joiner, &Keys)],
    name: &str,
) -> GroupId {
    let mut admins = vec![creator_keys.public_key()];
    let mut kps = vec![];
    for (j, k) in others {
        admins.push(k.public_key());
        kps.push(j.key_package(k));
    }
    let res = creator
        .create_group(&creator_keys.public_key(), kps, group_cfg(admins, name))
        .expect("create_group");
    let gid = res.group.mls_group_id.clone();
    creator.merge_pending_commit(&gid).expect("merge create");
    for (i, (j, _)) in others.iter().enumerate() {
        j.join(&res.welcome_rumors[i]);
    }
    gid
}

pub trait Joiner {
    fn key_package(&self, keys: &Keys) -> Event;
    fn join(&self, rumor: &nostr::UnsignedEvent);
}

impl<S: MdkStorageProvider> Joiner for MDK<S> {
    fn key_package(&self, keys: &Keys) -> Event {
        kp(self, keys)
    }
    fn join(&self, rumor: &nostr::UnsignedEvent) {
        let w = self
            .process_welcome(&nostr::EventId::from_slice(&rumor.id.unwrap().to_bytes().map(|b| b ^ 0x5a)).unwrap(), rumor)
            .expect("process_welcome");
        self.accept_welcome(&w).expect("accept_welcome");
    }
}

/// Re-sign a wrapper event with another created_at (the wrapper is signed by an ephemeral
/// key in the library; any key will do for the receiver).
pub fn with_ts(ev: &Event, ts: u64) -> Event {
    EventBuilder::new(ev.kind, ev.content.clone())
        .tags(ev.tags.iter().cloned())
        .custom_created_at(nostr::Timestamp::from(ts))
        .sign_with_keys(&Keys::generate())
        .expect("resign")
}
