//! R10 / property C10: differential tests between `MdkMemoryStorage` and `MdkSqliteStorage`.
//!
//! The same call sequence is run on both backends and every answer is compared (errors are
//! compared only as "is an error"). A fixed-seed random loop over small key pools looks for
//! unknown differences; the `t_*` tests pin individual hypotheses.

#![allow(clippy::type_complexity, unused_must_use)]

use std::collections::{BTreeMap, BTreeSet};

use mdk_memory_storage::MdkMemoryStorage;
use mdk_sqlite_storage::MdkSqliteStorage;
use mdk_storage_traits::groups::types::{
    Group, GroupExporterSecret, GroupState, SelfUpdateState,
};
use mdk_storage_traits::groups::{GroupStorage, MessageSortOrder, Pagination};
use mdk_storage_traits::messages::MessageStorage;
use mdk_storage_traits::messages::types::{
    Message, MessageState, ProcessedMessage, ProcessedMessageState,
};
use mdk_storage_traits::welcomes::types::{
    ProcessedWelcome, ProcessedWelcomeState, Welcome, WelcomeState,
};
use mdk_storage_traits::welcomes::{Pagination as WPagination, WelcomeStorage};
use mdk_storage_traits::{GroupId, MdkStorageProvider, Secret};
use nostr::{EventId, Keys, Kind, PublicKey, RelayUrl, SecretKey, Tag, Tags, Timestamp, UnsignedEvent};
use openmls_traits::storage::{Entity, Key, StorageProvider, traits};
use serde::{Deserialize, Serialize};

// ---------------------------------------------------------------------------------------------
// A blob type usable for every generic parameter of the MLS StorageProvider
// ---------------------------------------------------------------------------------------------

#[derive(Debug, Clone, PartialEq, Eq, PartialOrd, Ord, Serialize, Deserialize)]
struct Blob(Vec<u8>);

impl Key<1> for Blob {}
impl Entity<1> for Blob {}
macro_rules! marker {
    ($($t:ident),*) => { $( impl traits::$t<1> for Blob {} )* };
}
marker!(
    SignaturePublicKey,
    HashReference,
    PskId,
    EncryptionKey,
    EpochKey,
    QueuedProposal,
    TreeSync,
    GroupContext,
    InterimTranscriptHash,
    ConfirmationTag,
    SignatureKeyPair,
    PskBundle,
    HpkeKeyPair,
    GroupState,
    GroupEpochSecrets,
    LeafNodeIndex,
    MessageSecrets,
    ResumptionPskStore,
    KeyPackage,
    MlsGroupJoinConfig,
    LeafNode,
    ProposalRef
);

// ---------------------------------------------------------------------------------------------
// Harness
// ---------------------------------------------------------------------------------------------

struct H {
    m: MdkMemoryStorage,
    s: MdkSqliteStorage,
    log: Vec<String>,
    failure: Option<(String, String)>,
    all_failures: Vec<(String, String)>,
    _dir: Option<tempfile::TempDir>,
}

impl H {
    fn new() -> Self {
        H {
            m: MdkMemoryStorage::default(),
            s: MdkSqliteStorage::new_unencrypted(":memory:").expect("sqlite"),
            log: Vec::new(),
            failure: None,
            all_failures: Vec::new(),
            _dir: None,
        }
    }

    #[allow(dead_code)]
    fn new_file() -> Self {
        let dir = tempfile::tempdir().unwrap();
        let s = MdkSqliteStorage::new_unencrypted(dir.path().join("db.sqlite")).expect("sqlite");
        H {
            m: MdkMemoryStorage::default(),
            s,
            log: Vec::new(),
            failure: None,
            all_failures: Vec::new(),
            _dir: Some(dir),
        }
    }

    fn fail(&mut self, label: &str, detail: String) {
        self.all_failures.push((label.to_string(), detail.clone()));
        if self.failure.is_none() {
            self.failure = Some((label.to_string(), detail));
        }
    }

    fn assert_ok(&self) {
        if !self.all_failures.is_empty() {
            let mut msg = String::new();
            for (label, detail) in &self.all_failures {
                msg += &format!("backends differ at `{label}`:\n{detail}\n");
            }
            panic!("{msg}--- ops ---\n{}", self.log.join("\n"));
        }
    }
}

/// Run `$e` on both backends (bound to `$s`), map errors to `()`, normalise Ok values with
/// `$norm` and compare. Returns the memory answer.
macro_rules! check {
    ($h:expr, $label:expr, $s:ident => $e:expr) => {
        check!($h, $label, $s => $e, |x| x)
    };
    ($h:expr, $label:expr, $s:ident => $e:expr, $norm:expr) => {{
        let m = { let $s = &$h.m; $e }.map_err(|_| ()).map($norm);
        let q = { let $s = &$h.s; $e }.map_err(|_| ()).map($norm);
        if m != q {
            let label: String = $label.to_string();
            $h.fail(&label, format!("memory = {:?}\nsqlite = {:?}", m, q));
        }
        m
    }};
}

fn sorted<T: Ord>(mut v: Vec<T>) -> Vec<T> {
    v.sort();
    v
}

// ---------------------------------------------------------------------------------------------
// Pools
// ---------------------------------------------------------------------------------------------

fn gid(i: usize) -> GroupId {
    // index 3 is never saved as a group ("missing group")
    const POOL: [&[u8]; 4] = [&[1], &[0, 1], &[1, 0], &[9, 9]];
    GroupId::from_slice(POOL[i % 4])
}

fn nostr_id(i: usize) -> [u8; 32] {
    let mut a = [0u8; 32];
    match i % 3 {
        0 => {}
        1 => a[31] = 1,
        _ => a = [0xff; 32],
    }
    a
}

fn eid(i: usize) -> EventId {
    let mut a = [0u8; 32];
    match i % 4 {
        0 => {}
        1 => a[31] = 1,
        2 => a[0] = 1,
        _ => a = [0xff; 32],
    }
    EventId::from_byte_array(a)
}

fn pk(i: usize) -> PublicKey {
    let mut sk = [0u8; 32];
    sk[31] = 1 + (i % 3) as u8;
    Keys::new(SecretKey::from_slice(&sk).unwrap()).public_key()
}

fn ts(i: usize) -> Timestamp {
    const POOL: [u64; 4] = [0, 1, 2, i64::MAX as u64];
    Timestamp::from(POOL[i % 4])
}

fn epoch(i: usize) -> u64 {
    const POOL: [u64; 5] = [0, 1, 2, 3, i64::MAX as u64];
    POOL[i % 5]
}

fn relay(i: usize) -> RelayUrl {
    const POOL: [&str; 4] = [
        "wss://a.example.com",
        "wss://a.example.com/x",
        "ws://B.example.com:8080/",
        "wss://c.example.com/?q=1",
    ];
    RelayUrl::parse(POOL[i % 4]).unwrap()
}

fn text(i: usize) -> String {
    const POOL: [&str; 5] = ["", "a", "A", "with 'quote' % _ \\ \u{0} é", "x ABCdef"];
    POOL[i % 5].to_string()
}

fn tags(i: usize) -> Tags {
    match i % 5 {
        0 => Tags::new(),
        1 => Tags::from_list(vec![Tag::parse(["imeta", "x abcdef0123"]).unwrap()]),
        // (an upper-case twin of pool entry 1 would trip H1 in every long run: see
        // t_tag_content_search_is_case_sensitive_in_both; the random loop masks it)
        2 => Tags::from_list(vec![Tag::parse(["imeta", "x 99aa77"]).unwrap()]),
        3 => Tags::from_list(vec![
            Tag::parse(["t", "100%_sure\\"]).unwrap(),
            Tag::parse(["e", &"0".repeat(64)]).unwrap(),
        ]),
        _ => Tags::from_list(vec![Tag::parse(["imeta", "url x", "x 00ff"]).unwrap()]),
    }
}

struct Rng(u64);
impl Rng {
    fn next(&mut self) -> u64 {
        // xorshift64*
        let mut x = self.0;
        x ^= x >> 12;
        x ^= x << 25;
        x ^= x >> 27;
        self.0 = x;
        x.wrapping_mul(0x2545F4914F6CDD1D)
    }
    fn n(&mut self, n: usize) -> usize {
        (self.next() >> 33) as usize % n
    }
    fn b(&mut self) -> bool {
        self.n(2) == 0
    }
    fn opt<T>(&mut self, f: impl FnOnce(&mut Self) -> T) -> Option<T> {
        if self.b() { Some(f(self)) } else { None }
    }
}

fn mk_group(r: &mut Rng) -> Group {
    let states = [GroupState::Active, GroupState::Inactive, GroupState::Pending];
    let mut admins = BTreeSet::new();
    for i in 0..3 {
        if r.b() {
            admins.insert(pk(i));
        }
    }
    Group {
        mls_group_id: gid(r.n(3)),
        nostr_group_id: nostr_id(r.n(3)),
        name: text(r.n(5)),
        description: text(r.n(5)),
        image_hash: r.opt(|r| [r.n(3) as u8; 32]),
        image_key: r.opt(|r| Secret::new([r.n(3) as u8; 32])),
        image_nonce: r.opt(|r| Secret::new([r.n(3) as u8; 12])),
        admin_pubkeys: admins,
        last_message_id: r.opt(|r| eid(r.n(4))),
        last_message_at: r.opt(|r| ts(r.n(4))),
        last_message_processed_at: r.opt(|r| ts(r.n(4))),
        epoch: epoch(r.n(5)),
        state: states[r.n(3)],
        self_update_state: if r.b() {
            SelfUpdateState::Required
        } else {
            SelfUpdateState::CompletedAt(ts(1 + r.n(3)))
        },
    }
}

fn mk_message(r: &mut Rng) -> Message {
    let states = [
        MessageState::Created,
        MessageState::Processed,
        MessageState::Deleted,
        MessageState::EpochInvalidated,
    ];
    let pubkey = pk(r.n(3));
    let created_at = ts(r.n(4));
    let kind = Kind::from([1u16, 9, 7, 65535][r.n(4)]);
    let t = tags(r.n(5));
    let content = text(r.n(5));
    let mut event = UnsignedEvent::new(
        pk(r.n(3)),
        ts(r.n(4)),
        kind,
        tags(r.n(5)).to_vec(),
        text(r.n(5)),
    );
    if r.b() {
        event.id = Some(eid(r.n(4)));
    }
    Message {
        id: eid(r.n(4)),
        pubkey,
        kind,
        mls_group_id: gid(r.n(4)),
        created_at,
        processed_at: ts(r.n(4)),
        content,
        tags: t,
        event,
        wrapper_event_id: eid(r.n(4)),
        epoch: r.opt(|r| epoch(r.n(5))),
        state: states[r.n(4)],
    }
}

fn mk_processed_message(r: &mut Rng) -> ProcessedMessage {
    let states = [
        ProcessedMessageState::Created,
        ProcessedMessageState::Processed,
        ProcessedMessageState::ProcessedCommit,
        ProcessedMessageState::Failed,
        ProcessedMessageState::Failed,
        ProcessedMessageState::EpochInvalidated,
        ProcessedMessageState::Retryable,
    ];
    ProcessedMessage {
        wrapper_event_id: eid(r.n(4)),
        message_event_id: r.opt(|r| eid(r.n(4))),
        processed_at: ts(r.n(4)),
        epoch: r.opt(|r| epoch(r.n(5))),
        mls_group_id: r.opt(|r| gid(r.n(4))),
        state: states[r.n(7)],
        failure_reason: r.opt(|r| text(r.n(5))),
    }
}

fn mk_welcome(r: &mut Rng) -> Welcome {
    let states = [
        WelcomeState::Pending,
        WelcomeState::Pending,
        WelcomeState::Accepted,
        WelcomeState::Declined,
        WelcomeState::Ignored,
    ];
    let mut admins = BTreeSet::new();
    let mut relays = BTreeSet::new();
    for i in 0..3 {
        if r.b() {
            admins.insert(pk(i));
        }
        if r.b() {
            relays.insert(relay(i));
        }
    }
    let id = eid(r.n(4));
    let mut event = UnsignedEvent::new(
        pk(r.n(3)),
        ts(r.n(4)),
        Kind::Custom(444),
        tags(r.n(5)).to_vec(),
        text(r.n(5)),
    );
    if r.b() {
        event.id = Some(id);
    }
    Welcome {
        id,
        event,
        mls_group_id: gid(r.n(4)),
        nostr_group_id: nostr_id(r.n(3)),
        group_name: text(r.n(5)),
        group_description: text(r.n(5)),
        group_image_hash: r.opt(|r| [r.n(3) as u8; 32]),
        group_image_key: r.opt(|r| Secret::new([r.n(3) as u8; 32])),
        group_image_nonce: r.opt(|r| Secret::new([r.n(3) as u8; 12])),
        group_admin_pubkeys: admins,
        group_relays: relays,
        welcomer: pk(r.n(3)),
        member_count: [0u32, 1, 2, u32::MAX][r.n(4)],
        state: states[r.n(5)],
        wrapper_event_id: eid(r.n(4)),
    }
}

fn mk_pagination(r: &mut Rng) -> Option<Pagination> {
    if r.n(6) == 0 {
        return None;
    }
    let limit = [None, Some(0), Some(1), Some(2), Some(3), Some(10000), Some(10001), Some(usize::MAX)]
        [r.n(8)];
    let offset = [None, Some(0), Some(1), Some(2), Some(3), Some(usize::MAX), Some(i64::MAX as usize)]
        [r.n(7)];
    let sort = [
        None,
        Some(MessageSortOrder::CreatedAtFirst),
        Some(MessageSortOrder::ProcessedAtFirst),
    ][r.n(3)];
    Some(Pagination {
        limit,
        offset,
        sort_order: sort,
    })
}

fn mk_wpagination(r: &mut Rng) -> Option<WPagination> {
    if r.n(6) == 0 {
        return None;
    }
    let limit = [None, Some(0), Some(1), Some(2), Some(3), Some(10000), Some(10001), Some(usize::MAX)]
        [r.n(8)];
    let offset = [None, Some(0), Some(1), Some(2), Some(3), Some(usize::MAX), Some(i64::MAX as usize)]
        [r.n(7)];
    Some(WPagination { limit, offset })
}

fn now() -> u64 {
    std::time::SystemTime::now()
        .duration_since(std::time::UNIX_EPOCH)
        .unwrap()
        .as_secs()
}

// ---------------------------------------------------------------------------------------------
// Full observation of both stores (every read API over every pool key)
// ---------------------------------------------------------------------------------------------

fn observe(h: &mut H) {
    check!(h, "all_groups", s => s.all_groups(), |v: Vec<Group>| {
        let mut v = v;
        v.sort_by(|a, b| a.mls_group_id.cmp(&b.mls_group_id));
        v
    });
    for n in 0..3 {
        let id = nostr_id(n);
        check!(h, format!("find_group_by_nostr_group_id({n})"), s => s.find_group_by_nostr_group_id(&id));
    }
    for g in 0..4 {
        let g_id = gid(g);
        check!(h, format!("find_group_by_mls_group_id({g})"), s => s.find_group_by_mls_group_id(&g_id));
        check!(h, format!("admins({g})"), s => s.admins(&g_id));
        check!(h, format!("group_relays({g})"), s => s.group_relays(&g_id));
        for e in 0..5 {
            check!(h, format!("get_group_exporter_secret({g},{e})"), s => s.get_group_exporter_secret(&g_id, epoch(e)));
        }
        for so in [MessageSortOrder::CreatedAtFirst, MessageSortOrder::ProcessedAtFirst] {
            check!(h, format!("messages({g},{so:?})"), s => s.messages(&g_id, Some(Pagination::with_sort_order(Some(100), Some(0), so))));
            check!(h, format!("last_message({g},{so:?})"), s => s.last_message(&g_id, so));
        }
        for e in 0..4 {
            let e_id = eid(e);
            check!(h, format!("find_message_by_event_id({g},{e})"), s => s.find_message_by_event_id(&g_id, &e_id));
        }
        check!(h, format!("find_invalidated_messages({g})"), s => s.find_invalidated_messages(&g_id), sorted);
        check!(h, format!("find_invalidated_processed_messages({g})"), s => s.find_invalidated_processed_messages(&g_id), sorted);
        check!(h, format!("find_failed_messages_for_retry({g})"), s => s.find_failed_messages_for_retry(&g_id), sorted);
        check!(h, format!("list_group_snapshots({g})"), s => s.list_group_snapshots(&g_id), |v: Vec<(String, u64)>| sorted(v.into_iter().map(|(n, _)| n).collect::<Vec<_>>()));

        let og = g_id.inner().clone();
        // order after a rollback is H2 (t_own_leaf_nodes_order_survives_rollback): masked here
        check!(h, format!("own_leaf_nodes({g})"), s => s.own_leaf_nodes::<_, Blob>(&og), sorted);
        check!(h, format!("queued_proposal_refs({g})"), s => s.queued_proposal_refs::<_, Blob>(&og), sorted);
        check!(h, format!("queued_proposals({g})"), s => s.queued_proposals::<_, Blob, Blob>(&og), sorted);
        check!(h, format!("tree({g})"), s => s.tree::<_, Blob>(&og));
        check!(h, format!("group_context({g})"), s => s.group_context::<_, Blob>(&og));
        check!(h, format!("group_state({g})"), s => s.group_state::<Blob, _>(&og));
        check!(h, format!("own_leaf_index({g})"), s => s.own_leaf_index::<_, Blob>(&og));
        for e in 0..2 {
            for li in [0u32, u32::MAX] {
                check!(h, format!("encryption_epoch_key_pairs({g},{e},{li})"), s => s.encryption_epoch_key_pairs::<_, Blob, Blob>(&og, &Blob(vec![e as u8]), li));
            }
        }
    }
    for e in 0..4 {
        let e_id = eid(e);
        check!(h, format!("find_processed_message_by_event_id({e})"), s => s.find_processed_message_by_event_id(&e_id));
        check!(h, format!("find_welcome_by_event_id({e})"), s => s.find_welcome_by_event_id(&e_id));
        check!(h, format!("find_processed_welcome_by_event_id({e})"), s => s.find_processed_welcome_by_event_id(&e_id));
    }
    check!(h, "pending_welcomes(None)", s => s.pending_welcomes(None));
    for k in 0..3u8 {
        check!(h, format!("key_package({k})"), s => s.key_package::<Blob, Blob>(&Blob(vec![k])));
        check!(h, format!("psk({k})"), s => s.psk::<Blob, Blob>(&Blob(vec![k])));
        check!(h, format!("signature_key_pair({k})"), s => s.signature_key_pair::<Blob, Blob>(&Blob(vec![k])));
        check!(h, format!("encryption_key_pair({k})"), s => s.encryption_key_pair::<Blob, Blob>(&Blob(vec![k])));
    }
}

// ---------------------------------------------------------------------------------------------
// One random step
// ---------------------------------------------------------------------------------------------

fn step(h: &mut H, r: &mut Rng) {
    let op = r.n(44);
    match op {
        0..=3 => {
            let g = mk_group(r);
            h.log.push(format!("save_group({g:?})"));
            check!(h, "save_group", s => s.save_group(g.clone()));
        }
        4 | 5 => {
            let g = gid(r.n(4));
            let mut set = BTreeSet::new();
            for i in 0..4 {
                if r.n(3) == 0 {
                    set.insert(relay(i));
                }
            }
            h.log.push(format!("replace_group_relays({g:?},{set:?})"));
            check!(h, "replace_group_relays", s => s.replace_group_relays(&g, set.clone()));
        }
        6 | 7 => {
            let sec = GroupExporterSecret {
                mls_group_id: gid(r.n(4)),
                epoch: epoch(r.n(5)),
                secret: Secret::new([r.n(250) as u8; 32]),
            };
            h.log.push(format!("save_group_exporter_secret({:?},{})", sec.mls_group_id, sec.epoch));
            check!(h, "save_group_exporter_secret", s => s.save_group_exporter_secret(sec.clone()));
        }
        8..=13 => {
            let m = mk_message(r);
            h.log.push(format!("save_message({m:?})"));
            check!(h, "save_message", s => s.save_message(m.clone()));
        }
        14 | 15 => {
            let g = gid(r.n(4));
            let p = mk_pagination(r);
            h.log.push(format!("messages({g:?},{p:?})"));
            check!(h, "messages", s => s.messages(&g, p));
        }
        16..=18 => {
            let p = mk_processed_message(r);
            h.log.push(format!("save_processed_message({p:?})"));
            check!(h, "save_processed_message", s => s.save_processed_message(p.clone()));
        }
        19 => {
            let g = gid(r.n(4));
            let e = epoch(r.n(5));
            h.log.push(format!("invalidate_messages_after_epoch({g:?},{e})"));
            check!(h, "invalidate_messages_after_epoch", s => s.invalidate_messages_after_epoch(&g, e), sorted);
        }
        20 => {
            let g = gid(r.n(4));
            let e = epoch(r.n(5));
            h.log.push(format!("invalidate_processed_messages_after_epoch({g:?},{e})"));
            check!(h, "invalidate_processed_messages_after_epoch", s => s.invalidate_processed_messages_after_epoch(&g, e), sorted);
        }
        21 => {
            let e = eid(r.n(4));
            h.log.push(format!("mark_processed_message_retryable({e:?})"));
            check!(h, "mark_processed_message_retryable", s => s.mark_processed_message_retryable(&e));
        }
        22 => {
            let g = gid(r.n(4));
            let needle = ["x abcdef0123", "100%_sure\\", "zzz", "x 00ff", "%", "_", "\\", "imeta\",\"url"][r.n(8)];
            h.log.push(format!("find_message_epoch_by_tag_content({g:?},{needle:?})"));
            // several messages may match: only presence is comparable
            check!(h, "find_message_epoch_by_tag_content", s => s.find_message_epoch_by_tag_content(&g, needle), |o: Option<u64>| o.is_some());
        }
        23..=25 => {
            let w = mk_welcome(r);
            h.log.push(format!("save_welcome({w:?})"));
            check!(h, "save_welcome", s => s.save_welcome(w.clone()));
        }
        26 => {
            let p = mk_wpagination(r);
            h.log.push(format!("pending_welcomes({p:?})"));
            check!(h, "pending_welcomes", s => s.pending_welcomes(p));
        }
        27 => {
            let p = ProcessedWelcome {
                wrapper_event_id: eid(r.n(4)),
                welcome_event_id: r.opt(|r| eid(r.n(4))),
                processed_at: ts(r.n(4)),
                state: [ProcessedWelcomeState::Processed, ProcessedWelcomeState::Failed][r.n(2)],
                failure_reason: r.opt(|r| text(r.n(5))),
            };
            h.log.push(format!("save_processed_welcome({p:?})"));
            check!(h, "save_processed_welcome", s => s.save_processed_welcome(p.clone()));
        }
        28 | 29 => {
            // only groups that exist (a snapshot of a missing group is out of scope)
            let g = gid(r.n(3));
            if h.m.find_group_by_mls_group_id(&g).unwrap().is_some() {
                let name = ["a", "b", ""][r.n(3)];
                h.log.push(format!("create_group_snapshot({g:?},{name:?})"));
                check!(h, "create_group_snapshot", s => s.create_group_snapshot(&g, name));
            }
        }
        30 | 31 => {
            let g = gid(r.n(4));
            let name = ["a", "b", "", "nope"][r.n(4)];
            h.log.push(format!("rollback_group_to_snapshot({g:?},{name:?})"));
            check!(h, "rollback_group_to_snapshot", s => s.rollback_group_to_snapshot(&g, name));
        }
        32 => {
            let g = gid(r.n(4));
            let name = ["a", "b", "", "nope"][r.n(4)];
            h.log.push(format!("release_group_snapshot({g:?},{name:?})"));
            check!(h, "release_group_snapshot", s => s.release_group_snapshot(&g, name));
        }
        33 => {
            if r.n(4) == 0 {
                let t = [0, now() - 1000, now() + 1000][r.n(3)];
                h.log.push(format!("prune_expired_snapshots({t})"));
                check!(h, "prune_expired_snapshots", s => s.prune_expired_snapshots(t));
            }
        }
        34 | 35 => {
            let og = gid(r.n(4)).inner().clone();
            let b = Blob(vec![r.n(250) as u8; r.n(3)]);
            h.log.push(format!("append_own_leaf_node({og:?},{b:?})"));
            check!(h, "append_own_leaf_node", s => s.append_own_leaf_node(&og, &b));
        }
        36 => {
            let og = gid(r.n(4)).inner().clone();
            let pr = Blob(vec![r.n(3) as u8]);
            let b = Blob(vec![r.n(250) as u8; r.n(3)]);
            h.log.push(format!("queue_proposal({og:?},{pr:?},{b:?})"));
            check!(h, "queue_proposal", s => s.queue_proposal(&og, &pr, &b));
        }
        37 => {
            let og = gid(r.n(4)).inner().clone();
            match r.n(3) {
                0 => {
                    let pr = Blob(vec![r.n(3) as u8]);
                    h.log.push(format!("remove_proposal({og:?},{pr:?})"));
                    check!(h, "remove_proposal", s => s.remove_proposal(&og, &pr));
                }
                1 => {
                    h.log.push(format!("clear_proposal_queue({og:?})"));
                    check!(h, "clear_proposal_queue", s => s.clear_proposal_queue::<_, Blob>(&og));
                }
                _ => {
                    h.log.push(format!("delete_own_leaf_nodes({og:?})"));
                    check!(h, "delete_own_leaf_nodes", s => s.delete_own_leaf_nodes(&og));
                }
            }
        }
        38 => {
            let og = gid(r.n(4)).inner().clone();
            let b = Blob(vec![r.n(250) as u8; r.n(3)]);
            match r.n(6) {
                0 => {
                    h.log.push(format!("write_tree({og:?},{b:?})"));
                    check!(h, "write_tree", s => s.write_tree(&og, &b));
                }
                1 => {
                    h.log.push(format!("write_context({og:?},{b:?})"));
                    check!(h, "write_context", s => s.write_context(&og, &b));
                }
                2 => {
                    h.log.push(format!("write_group_state({og:?},{b:?})"));
                    check!(h, "write_group_state", s => s.write_group_state(&og, &b));
                }
                3 => {
                    h.log.push(format!("write_own_leaf_index({og:?},{b:?})"));
                    check!(h, "write_own_leaf_index", s => s.write_own_leaf_index(&og, &b));
                }
                4 => {
                    h.log.push(format!("delete_tree({og:?})"));
                    check!(h, "delete_tree", s => s.delete_tree(&og));
                }
                _ => {
                    h.log.push(format!("delete_group_state({og:?})"));
                    check!(h, "delete_group_state", s => s.delete_group_state(&og));
                }
            }
        }
        39 => {
            let og = gid(r.n(4)).inner().clone();
            let ek = Blob(vec![r.n(2) as u8]);
            let li = [0u32, u32::MAX][r.n(2)];
            if r.n(3) == 0 {
                h.log.push(format!("delete_encryption_epoch_key_pairs({og:?},{ek:?},{li})"));
                check!(h, "delete_encryption_epoch_key_pairs", s => s.delete_encryption_epoch_key_pairs(&og, &ek, li));
            } else {
                let kps: Vec<Blob> = (0..r.n(3)).map(|i| Blob(vec![i as u8, r.n(250) as u8])).collect();
                h.log.push(format!("write_encryption_epoch_key_pairs({og:?},{ek:?},{li},{kps:?})"));
                check!(h, "write_encryption_epoch_key_pairs", s => s.write_encryption_epoch_key_pairs(&og, &ek, li, &kps));
            }
        }
        40 => {
            let k = Blob(vec![r.n(3) as u8]);
            let v = Blob(vec![r.n(250) as u8; r.n(3)]);
            match r.n(8) {
                0 => { h.log.push(format!("write_key_package({k:?})")); check!(h, "write_key_package", s => s.write_key_package(&k, &v)); }
                1 => { h.log.push(format!("write_psk({k:?})")); check!(h, "write_psk", s => s.write_psk(&k, &v)); }
                2 => { h.log.push(format!("write_signature_key_pair({k:?})")); check!(h, "write_signature_key_pair", s => s.write_signature_key_pair(&k, &v)); }
                3 => { h.log.push(format!("write_encryption_key_pair({k:?})")); check!(h, "write_encryption_key_pair", s => s.write_encryption_key_pair(&k, &v)); }
                4 => { h.log.push(format!("delete_key_package({k:?})")); check!(h, "delete_key_package", s => s.delete_key_package(&k)); }
                5 => { h.log.push(format!("delete_psk({k:?})")); check!(h, "delete_psk", s => s.delete_psk(&k)); }
                6 => { h.log.push(format!("delete_signature_key_pair({k:?})")); check!(h, "delete_signature_key_pair", s => s.delete_signature_key_pair(&k)); }
                _ => { h.log.push(format!("delete_encryption_key_pair({k:?})")); check!(h, "delete_encryption_key_pair", s => s.delete_encryption_key_pair(&k)); }
            }
        }
        _ => {
            h.log.push("observe".to_string());
            observe(h);
        }
    }
}

// ---------------------------------------------------------------------------------------------
// Random differential loop
// ---------------------------------------------------------------------------------------------

#[test]
fn r10_random_differential() {
    let seeds: u64 = std::env::var("R10_SEEDS").ok().and_then(|s| s.parse().ok()).unwrap_or(150);
    let steps: usize = std::env::var("R10_STEPS").ok().and_then(|s| s.parse().ok()).unwrap_or(120);
    let mut by_label: BTreeMap<String, (u64, String, Vec<String>)> = BTreeMap::new();
    let mut failed = 0;
    for seed in 1..=seeds {
        let mut h = H::new();
        let mut r = Rng(seed.wrapping_mul(0x9E3779B97F4A7C15) | 1);
        for _ in 0..steps {
            step(&mut h, &mut r);
            if h.failure.is_some() {
                break;
            }
        }
        if h.failure.is_none() {
            observe(&mut h);
        }
        if let Some((label, detail)) = h.failure.take() {
            failed += 1;
            let key = label.split('(').next().unwrap().to_string();
            by_label.entry(key).or_insert((seed, detail, h.log.clone()));
        }
    }
    if !by_label.is_empty() {
        let mut msg = format!("{failed}/{seeds} seeds diverged\n");
        for (label, (seed, detail, log)) in &by_label {
            let tail: Vec<_> = log.iter().rev().take(6).rev().cloned().collect();
            msg += &format!(
                "=== `{label}` first at seed {seed} ({} ops) ===\n{detail}\n--- last ops ---\n{}\n",
                log.len(),
                tail.join("\n")
            );
        }
        panic!("{msg}");
    }
}

// ---------------------------------------------------------------------------------------------
// Targeted hypotheses
// ---------------------------------------------------------------------------------------------

fn base_group(g: usize) -> Group {
    Group {
        mls_group_id: gid(g),
        nostr_group_id: {
            let mut a = [7u8; 32];
            a[0] = g as u8;
            a
        },
        name: "g".into(),
        description: "d".into(),
        image_hash: None,
        image_key: None,
        image_nonce: None,
        admin_pubkeys: BTreeSet::new(),
        last_message_id: None,
        last_message_at: None,
        last_message_processed_at: None,
        epoch: 0,
        state: GroupState::Active,
        self_update_state: SelfUpdateState::Required,
    }
}

fn base_message(g: usize, id: usize, t: Tags, ep: Option<u64>) -> Message {
    Message {
        id: eid(id),
        pubkey: pk(0),
        kind: Kind::from(9u16),
        mls_group_id: gid(g),
        created_at: ts(1),
        processed_at: ts(1),
        content: "c".into(),
        tags: t.clone(),
        event: UnsignedEvent::new(pk(0), ts(1), Kind::from(9u16), t.to_vec(), "c"),
        wrapper_event_id: eid(3),
        epoch: ep,
        state: MessageState::Processed,
    }
}

/// H1: `find_message_epoch_by_tag_content` is documented as a *literal* substring match.
/// SQLite implements it with `LIKE`, which is case-insensitive for ASCII; memory uses
/// `str::contains`.
#[test]
fn t_tag_content_search_is_case_sensitive_in_both() {
    let mut h = H::new();
    check!(h, "save_group", s => s.save_group(base_group(0)));
    let t = Tags::from_list(vec![Tag::parse(["imeta", "x abcdef0123"]).unwrap()]);
    let m = base_message(0, 1, t, Some(5));
    check!(h, "save_message", s => s.save_message(m.clone()));
    let g = gid(0);
    // exact: both find it
    check!(h, "find exact", s => s.find_message_epoch_by_tag_content(&g, "x abcdef0123"));
    // different case: a literal substring match finds nothing
    let got = check!(h, "find upper-case needle", s => s.find_message_epoch_by_tag_content(&g, "X ABCDEF0123"));
    h.assert_ok();
    assert_eq!(got, Ok(None));
}

/// H2: order of `own_leaf_nodes` after a rollback (SQLite re-inserts snapshot rows in the
/// order of the JSON-text row key, i.e. "10" before "9").
#[test]
fn t_own_leaf_nodes_order_survives_rollback() {
    let mut h = H::new();
    check!(h, "save_group", s => s.save_group(base_group(0)));
    let g = gid(0);
    let og = g.inner().clone();
    for i in 0..12u8 {
        let b = Blob(vec![i]);
        check!(h, "append_own_leaf_node", s => s.append_own_leaf_node(&og, &b));
    }
    check!(h, "own_leaf_nodes before", s => s.own_leaf_nodes::<_, Blob>(&og));
    check!(h, "create_group_snapshot", s => s.create_group_snapshot(&g, "snap"));
    check!(h, "rollback_group_to_snapshot", s => s.rollback_group_to_snapshot(&g, "snap"));
    let after = check!(h, "own_leaf_nodes after rollback", s => s.own_leaf_nodes::<_, Blob>(&og));
    h.assert_ok();
    assert_eq!(after.unwrap(), (0..12u8).map(|i| Blob(vec![i])).collect::<Vec<_>>());
}

/// H3: prune boundary with a cut-off above i64::MAX ("prune everything").
#[test]
fn t_prune_with_huge_cutoff() {
    let mut h = H::new();
    check!(h, "save_group", s => s.save_group(base_group(0)));
    let g = gid(0);
    check!(h, "create_group_snapshot", s => s.create_group_snapshot(&g, "snap"));
    check!(h, "prune_expired_snapshots(u64::MAX)", s => s.prune_expired_snapshots(u64::MAX));
    check!(h, "list_group_snapshots", s => s.list_group_snapshots(&g), |v: Vec<(String, u64)>| v.len());
    h.assert_ok();
}

/// H4: numbers above i64::MAX (epochs, timestamps) in every place a u64 is accepted.
/// Every sub-case is independent (own group / own keys); all differences are reported.
#[test]
fn t_u64_above_i64_max() {
    let mut h = H::new();
    for g in 0..3 {
        check!(h, "save_group", s => s.save_group(base_group(g)));
    }
    let g = gid(0);

    // (a) group epoch
    let mut big_epoch = base_group(1);
    big_epoch.epoch = u64::MAX;
    check!(h, "a1 save_group(epoch=u64::MAX)", s => s.save_group(big_epoch.clone()));
    let g1 = gid(1);
    check!(h, "a2 find_group after save_group(epoch=u64::MAX)", s => s.find_group_by_mls_group_id(&g1), |o: Option<Group>| o.map(|g| g.epoch));
    check!(h, "a3 all_groups().len() after save_group(epoch=u64::MAX)", s => s.all_groups(), |v: Vec<Group>| v.len());
    check!(h, "a4 messages() of that group", s => s.messages(&g1, None), |v: Vec<Message>| v.len());

    // (b) group last_message_at
    let mut big_ts = base_group(2);
    big_ts.last_message_at = Some(Timestamp::from(u64::MAX));
    check!(h, "b1 save_group(last_message_at=u64::MAX)", s => s.save_group(big_ts.clone()));

    // (c) exporter secret epoch
    let sec = GroupExporterSecret { mls_group_id: g.clone(), epoch: u64::MAX, secret: Secret::new([1; 32]) };
    check!(h, "c1 save_group_exporter_secret(epoch=u64::MAX)", s => s.save_group_exporter_secret(sec.clone()));
    check!(h, "c2 get_group_exporter_secret(epoch=u64::MAX)", s => s.get_group_exporter_secret(&g, u64::MAX), |o: Option<GroupExporterSecret>| o.is_some());

    // (d) message: created_at comes from the sender's rumor, i.e. from the network
    let mut m = base_message(0, 1, Tags::new(), Some(1));
    m.created_at = Timestamp::from(i64::MAX as u64 + 1);
    check!(h, "d1 save_message(created_at=2^63)", s => s.save_message(m.clone()));
    let id1 = eid(1);
    check!(h, "d2 find_message_by_event_id after d1", s => s.find_message_by_event_id(&g, &id1), |o: Option<Message>| o.is_some());
    let mut m2 = base_message(0, 2, Tags::new(), Some(u64::MAX));
    m2.created_at = ts(1);
    check!(h, "d3 save_message(epoch=u64::MAX)", s => s.save_message(m2.clone()));

    // (e) queries with an epoch bound above i64::MAX
    check!(h, "e1 invalidate_messages_after_epoch(u64::MAX)", s => s.invalidate_messages_after_epoch(&g, u64::MAX));
    check!(h, "e2 invalidate_processed_messages_after_epoch(u64::MAX)", s => s.invalidate_processed_messages_after_epoch(&g, u64::MAX));

    // (f) processed message / processed welcome timestamps
    let pm = ProcessedMessage {
        wrapper_event_id: eid(1),
        message_event_id: None,
        processed_at: Timestamp::from(u64::MAX),
        epoch: None,
        mls_group_id: None,
        state: ProcessedMessageState::Processed,
        failure_reason: None,
    };
    check!(h, "f1 save_processed_message(processed_at=u64::MAX)", s => s.save_processed_message(pm.clone()));
    let pw = ProcessedWelcome {
        wrapper_event_id: eid(1),
        welcome_event_id: None,
        processed_at: Timestamp::from(u64::MAX),
        state: ProcessedWelcomeState::Processed,
        failure_reason: None,
    };
    check!(h, "f2 save_processed_welcome(processed_at=u64::MAX)", s => s.save_processed_welcome(pw.clone()));
    h.assert_ok();
}

/// H5: `SelfUpdateState::CompletedAt(0)` (documented as "maps to a non-zero timestamp").
#[test]
fn t_completed_at_zero() {
    let mut h = H::new();
    let mut g = base_group(0);
    g.self_update_state = SelfUpdateState::CompletedAt(Timestamp::from(0));
    check!(h, "save_group", s => s.save_group(g.clone()));
    let id = gid(0);
    check!(h, "find_group", s => s.find_group_by_mls_group_id(&id));
    h.assert_ok();
}

/// H6: one event id in two groups, invalidation in one of them only.
#[test]
fn t_same_event_id_in_two_groups() {
    let mut h = H::new();
    check!(h, "save_group", s => s.save_group(base_group(0)));
    check!(h, "save_group", s => s.save_group(base_group(1)));
    let a = base_message(0, 1, Tags::new(), Some(5));
    let mut b = base_message(1, 1, Tags::new(), Some(5));
    b.content = "other".into();
    check!(h, "save_message a", s => s.save_message(a.clone()));
    check!(h, "save_message b", s => s.save_message(b.clone()));
    let g0 = gid(0);
    check!(h, "invalidate", s => s.invalidate_messages_after_epoch(&g0, 4), sorted);
    observe(&mut h);
    // overwrite in group 0 with a new state, group 1 untouched
    let mut a2 = a.clone();
    a2.state = MessageState::Deleted;
    a2.epoch = None;
    check!(h, "save_message a2", s => s.save_message(a2.clone()));
    observe(&mut h);
    h.assert_ok();
}

/// H7: `list_group_snapshots` order when several snapshots share one `created_at` second
/// (the contract: "ordered by creation time (oldest first)"; the clock has 1 s resolution).
#[test]
fn t_snapshot_listing_ties() {
    let names = ["m", "z", "a", "k", "b"];
    let mut compared = 0;
    let mut mismatches = Vec::new();
    for _ in 0..40 {
        let mut h = H::new();
        check!(h, "save_group", s => s.save_group(base_group(0)));
        let g = gid(0);
        for name in names {
            check!(h, "create_group_snapshot", s => s.create_group_snapshot(&g, name));
        }
        h.assert_ok();
        let lm = h.m.list_group_snapshots(&g).unwrap();
        let ls = h.s.list_group_snapshots(&g).unwrap();
        let one_second = lm.iter().chain(ls.iter()).map(|(_, t)| *t).collect::<BTreeSet<_>>().len() == 1;
        if !one_second {
            continue;
        }
        compared += 1;
        let nm: Vec<_> = lm.into_iter().map(|(n, _)| n).collect();
        let ns: Vec<_> = ls.into_iter().map(|(n, _)| n).collect();
        if nm != ns {
            mismatches.push((nm, ns));
        }
    }
    assert!(compared > 0);
    assert!(
        mismatches.is_empty(),
        "listing order differs on created_at ties in {}/{compared} rounds, e.g. memory={:?} sqlite={:?} (created in order {names:?})",
        mismatches.len(),
        mismatches[0].0,
        mismatches[0].1
    );
}

/// H8: relays: replace with empty set, duplicates modulo trailing slash, rollback restoring them.
#[test]
fn t_relays_replace_and_rollback() {
    let mut h = H::new();
    check!(h, "save_group", s => s.save_group(base_group(0)));
    let g = gid(0);
    let set: BTreeSet<RelayUrl> = [
        RelayUrl::parse("wss://a.example.com").unwrap(),
        RelayUrl::parse("wss://a.example.com/").unwrap(),
        RelayUrl::parse("wss://A.example.com").unwrap(),
        RelayUrl::parse("wss://a.example.com:443").unwrap(),
        RelayUrl::parse("wss://b.example.com/path/").unwrap(),
    ]
    .into_iter()
    .collect();
    check!(h, "replace_group_relays", s => s.replace_group_relays(&g, set.clone()));
    check!(h, "group_relays", s => s.group_relays(&g));
    check!(h, "create_group_snapshot", s => s.create_group_snapshot(&g, "s"));
    check!(h, "replace_group_relays(empty)", s => s.replace_group_relays(&g, BTreeSet::new()));
    check!(h, "group_relays", s => s.group_relays(&g));
    check!(h, "rollback", s => s.rollback_group_to_snapshot(&g, "s"));
    check!(h, "group_relays after rollback", s => s.group_relays(&g));
    check!(h, "rollback again", s => s.rollback_group_to_snapshot(&g, "s"));
    h.assert_ok();
}

/// H9: messages sorting with ties on every key, and exact pagination windows.
#[test]
fn t_messages_total_order_and_windows() {
    let mut h = H::new();
    check!(h, "save_group", s => s.save_group(base_group(0)));
    let g = gid(0);
    let mut n = 0u8;
    for c in 0..3u64 {
        for p in 0..3u64 {
            for _ in 0..2 {
                n += 1;
                let mut id = [0u8; 32];
                id[(n % 3) as usize * 15] = n;
                let mut m = base_message(0, 0, Tags::new(), None);
                m.id = EventId::from_byte_array(id);
                m.created_at = Timestamp::from(c);
                m.processed_at = Timestamp::from(p);
                check!(h, "save_message", s => s.save_message(m.clone()));
            }
        }
    }
    for so in [MessageSortOrder::CreatedAtFirst, MessageSortOrder::ProcessedAtFirst] {
        for limit in [1usize, 2, 5, 17, 18, 19, 10000] {
            for offset in [0usize, 1, 5, 17, 18, 19, usize::MAX] {
                check!(h, format!("messages({so:?},{limit},{offset})"), s => s.messages(&g, Some(Pagination::with_sort_order(Some(limit), Some(offset), so))));
            }
        }
        check!(h, format!("last_message({so:?})"), s => s.last_message(&g, so));
        // documented equivalence
        let lm = h.s.last_message(&g, so).unwrap();
        let first = h.s.messages(&g, Some(Pagination::with_sort_order(Some(1), Some(0), so))).unwrap();
        assert_eq!(lm, first.into_iter().next());
    }
    h.assert_ok();
}

/// H10: pending welcomes ordering/pagination and overwrite of every column.
#[test]
fn t_welcomes_overwrite_and_pagination() {
    let mut h = H::new();
    let mut r = Rng(77);
    for _ in 0..60 {
        let w = mk_welcome(&mut r);
        check!(h, "save_welcome", s => s.save_welcome(w.clone()));
        for limit in [1usize, 2, 3, 4, 10000] {
            for offset in [0usize, 1, 2, 3, 4, usize::MAX] {
                check!(h, format!("pending_welcomes({limit},{offset})"), s => s.pending_welcomes(Some(WPagination::new(Some(limit), Some(offset)))));
            }
        }
        for e in 0..4 {
            let id = eid(e);
            check!(h, "find_welcome", s => s.find_welcome_by_event_id(&id));
        }
    }
    h.assert_ok();
}

/// H11: records hanging off a group that does not exist.
#[test]
fn t_missing_group() {
    let mut h = H::new();
    let g = gid(3);
    let m = base_message(3, 1, Tags::new(), Some(1));
    check!(h, "save_message(missing group)", s => s.save_message(m.clone()));
    check!(h, "replace_group_relays(missing group)", s => s.replace_group_relays(&g, BTreeSet::new()));
    let sec = GroupExporterSecret { mls_group_id: g.clone(), epoch: 0, secret: Secret::new([1; 32]) };
    check!(h, "save_group_exporter_secret(missing group)", s => s.save_group_exporter_secret(sec.clone()));
    let pm = ProcessedMessage {
        wrapper_event_id: eid(1),
        message_event_id: None,
        processed_at: ts(1),
        epoch: None,
        mls_group_id: Some(g.clone()),
        state: ProcessedMessageState::Failed,
        failure_reason: None,
    };
    check!(h, "save_processed_message(missing group)", s => s.save_processed_message(pm.clone()));
    check!(h, "find_failed_messages_for_retry(missing group)", s => s.find_failed_messages_for_retry(&g));
    check!(h, "invalidate_messages_after_epoch(missing group)", s => s.invalidate_messages_after_epoch(&g, 0));
    check!(h, "find_invalidated_messages(missing group)", s => s.find_invalidated_messages(&g));
    check!(h, "find_message_epoch_by_tag_content(missing group)", s => s.find_message_epoch_by_tag_content(&g, ""));
    check!(h, "messages(missing group)", s => s.messages(&g, None));
    check!(h, "last_message(missing group)", s => s.last_message(&g, MessageSortOrder::CreatedAtFirst));
    check!(h, "admins(missing group)", s => s.admins(&g));
    check!(h, "group_relays(missing group)", s => s.group_relays(&g));
    check!(h, "get_group_exporter_secret(missing group)", s => s.get_group_exporter_secret(&g, 0));
    check!(h, "list_group_snapshots(missing group)", s => s.list_group_snapshots(&g));
    check!(h, "release_group_snapshot(missing group)", s => s.release_group_snapshot(&g, "x"));
    check!(h, "rollback_group_to_snapshot(missing group)", s => s.rollback_group_to_snapshot(&g, "x"));
    observe(&mut h);
    h.assert_ok();
}

/// H12: rollback restores the group row, relays, secrets and MLS data, leaves messages,
/// processed messages and welcomes alone, keeps other snapshots and other groups.
#[test]
fn t_rollback_scope() {
    let mut h = H::new();
    let mut r = Rng(4242);
    for round in 0..40 {
        for _ in 0..25 {
            step(&mut h, &mut r);
        }
        observe(&mut h);
        if h.failure.is_some() {
            break;
        }
        let _ = round;
    }
    h.assert_ok();
}

/// H13: tag-content search with LIKE metacharacters and non-ASCII case.
#[test]
fn t_tag_content_metacharacters() {
    let mut h = H::new();
    check!(h, "save_group", s => s.save_group(base_group(0)));
    let g = gid(0);
    let t = Tags::from_list(vec![
        Tag::parse(["t", "100%_sure\\ok"]).unwrap(),
        Tag::parse(["u", "Ünï \"q\" \n nl"]).unwrap(),
    ]);
    let m = base_message(0, 1, t, Some(0));
    check!(h, "save_message", s => s.save_message(m.clone()));
    for needle in [
        "", "100%", "100%_", "100_", "1%e", "_sure", "sure\\", "sure\\\\ok", "\\", "\\\\", "Ünï", "ünï", "\"q\"", "\\\"q\\\"",
        "\n", "\\n", "[[", "]]", "\",\"", "t\",\"100",
    ] {
        check!(h, format!("find({needle:?})"), s => s.find_message_epoch_by_tag_content(&g, needle));
    }
    h.assert_ok();
}

/// H14: zero-length and long group ids, odd snapshot names.
#[test]
fn t_odd_group_ids_and_snapshot_names() {
    let mut h = H::new();
    for (i, bytes) in [vec![], vec![0u8], vec![0u8, 0], vec![7u8; 300]].into_iter().enumerate() {
        let g = GroupId::from_slice(&bytes);
        let mut grp = base_group(0);
        grp.mls_group_id = g.clone();
        grp.nostr_group_id = [i as u8 + 100; 32];
        check!(h, format!("save_group({i})"), s => s.save_group(grp.clone()));
        check!(h, format!("find_group({i})"), s => s.find_group_by_mls_group_id(&g));
        let mut m = base_message(0, 1, Tags::new(), Some(i as u64));
        m.mls_group_id = g.clone();
        check!(h, format!("save_message({i})"), s => s.save_message(m.clone()));
        check!(h, format!("messages({i})"), s => s.messages(&g, None));
        let og = g.inner().clone();
        check!(h, format!("append_own_leaf_node({i})"), s => s.append_own_leaf_node(&og, &Blob(vec![i as u8])));
        check!(h, format!("write_tree({i})"), s => s.write_tree(&og, &Blob(vec![i as u8])));
        for name in ["", " ", "a'b", "ünï", "a\u{0}b", "%"] {
            check!(h, format!("create_group_snapshot({i},{name:?})"), s => s.create_group_snapshot(&g, name));
        }
        check!(h, format!("list({i})"), s => s.list_group_snapshots(&g), |v: Vec<(String, u64)>| sorted(v.into_iter().map(|(n, _)| n).collect::<Vec<_>>()));
        check!(h, format!("write_tree2({i})"), s => s.write_tree(&og, &Blob(vec![99])));
        check!(h, format!("rollback({i})"), s => s.rollback_group_to_snapshot(&g, "a\u{0}b"));
        check!(h, format!("rollback2({i})"), s => s.rollback_group_to_snapshot(&g, "a"));
        check!(h, format!("tree({i})"), s => s.tree::<_, Blob>(&og));
        check!(h, format!("own_leaf_nodes({i})"), s => s.own_leaf_nodes::<_, Blob>(&og));
        check!(h, format!("list after({i})"), s => s.list_group_snapshots(&g), |v: Vec<(String, u64)>| sorted(v.into_iter().map(|(n, _)| n).collect::<Vec<_>>()));
    }
    check!(h, "all_groups", s => s.all_groups(), |v: Vec<Group>| v.len());
    h.assert_ok();
}

/// H2b: the smallest case of H2: two own leaf nodes of one group whose row ids are 9 and 10
/// (row ids are database-wide, so every long-lived database crosses such a boundary).
#[test]
fn t_own_leaf_nodes_order_two_nodes() {
    let mut h = H::new();
    check!(h, "save_group", s => s.save_group(base_group(0)));
    check!(h, "save_group", s => s.save_group(base_group(1)));
    let (a, b) = (gid(0), gid(1));
    let (oa, ob) = (a.inner().clone(), b.inner().clone());
    for i in 0..8u8 {
        check!(h, "append_own_leaf_node(a)", s => s.append_own_leaf_node(&oa, &Blob(vec![i])));
    }
    check!(h, "append_own_leaf_node(b, first)", s => s.append_own_leaf_node(&ob, &Blob(b"first".to_vec())));
    check!(h, "append_own_leaf_node(b, second)", s => s.append_own_leaf_node(&ob, &Blob(b"second".to_vec())));
    check!(h, "create_group_snapshot(b)", s => s.create_group_snapshot(&b, "snap"));
    check!(h, "rollback_group_to_snapshot(b)", s => s.rollback_group_to_snapshot(&b, "snap"));
    let after = check!(h, "own_leaf_nodes(b) after rollback", s => s.own_leaf_nodes::<_, Blob>(&ob));
    h.assert_ok();
    assert_eq!(after.unwrap(), vec![Blob(b"first".to_vec()), Blob(b"second".to_vec())]);
}
