#!/bin/sh
# usage: sweep.sh "<seeds>" "<checks>" [extra args]  -- runs from a snapshot dir (vp run) or /verif
export CARGO_NET_OFFLINE=true
export CARGO_TARGET_DIR=${SWEEP_TARGET:-/tmp/vp-target}
export VERIF_ROOT=$PWD
cargo build --release --offline -q 2>&1 | tail -3
for seed in $1; do
  for c in $2; do
    VERIF_SEED=$seed $CARGO_TARGET_DIR/release/mdk-sim $c $3 2>&1 | grep -E "^(C[0-9]+ |VIOLATION|bucket|violation|HARNESS)" | grep -v "|KF-" | cut -c1-400 | sed "s/^/seed=$seed /"
  done
done
