#!/bin/sh
# usage: trymut.sh <patch> <checks...> : apply a seeded change to /repo, run the quick checks, undo it
P=$1; shift
[ -z "$(git -C /repo status --porcelain)" ] || { echo "/repo has uncommitted changes: refusing (the undo step would discard them)"; exit 2; }
git -C /repo apply "$P" || { echo "patch does not apply"; exit 2; }
for c in "$@"; do
  /verif/check $c --tier quick 2>&1 | grep -E "^(C[0-9]+ quick|VIOLATION|HARNESS|violation)" | cut -c1-330
  echo "== $c exit: $?"
done
git -C /repo checkout -- .
git -C /repo status --short | head -3
