#!/usr/bin/env python3
"""Regenerates MANIFEST.json from the table below (keeps claimed checks and not_applicable in sync)."""
import json
props=[json.loads(l) for l in open('/verif/properties.jsonl')]
TECH="deterministic simulation with fault injection"
CLAIMED={
 "C01":("exploration","seeded search over delivery schedules, fork patterns (2-4 sibling commits, tied/increasing timestamps), both own-commit policies, duplicates and reordering in a deterministic simulation of real clients on both backends; convergence oracle against an executable MIP-03 selector over the commit tree","§8 C01","sampling, not proof; honest members; simulator is relay + app layer; known findings attributed by history predicates, guarded variants exclude the triggers by construction"),
 "C02":("exploration","message-heavy seeded runs with non-default window configs; message-ledger oracle after quiescence (exactly once, intact, valid; losing-branch messages not valid) plus per-step content immutability","§8 C02","obligation only for (message, client) pairs whose hand-overs stayed inside the epoch and ratchet windows"),
 "C07":("exploration","every event that took effect is handed over again at arbitrary later points (later epochs, after rollback, eviction, restart, quiescence passes); restricted-fingerprint equality before/after each re-delivery","§8 C07","dedup-record internals are not part of the compared state"),
 "C08":("exploration","after every API call in seeded histories (two groups, id rotation, relay/admin/image updates, rollbacks, restarts): stored record + relays == MLS state, lookup by the id in force, no 'group not found' for an active member, no cross-group effect","§8 C08","honest members"),
 "C11":("exploration","each seeded history on SQLite/SQLCipher is executed twice from one seed, with clean restarts at seeded positions and with the restarts replaced by no-ops; per-step reseeding makes both executions byte-comparable, so every later API result and per-step fingerprint must be equal","§8 C11","clean shutdown only; same constructor/key/config on reopen"),
 "C20":("exploration","after every step list_group_snapshots of every client/group is compared with an executable snapshot-queue model (retention 0..6, TTL 5..120 s, clock jumps, rollbacks, restarts)","§8 C20","snapshot age measured on the node's simulated clock"),
 "C09":("exploration","storage-level operation sequences on each backend (trait writes + OpenMLS StorageProvider writes with harness blobs) interleaved with snapshot create/rollback/release/list/prune/reopen, with a full dump of every read method around each of them (restored part equals the dump at snapshot time, everything else equals the dump just before); plus a frame check around every rollback in world runs","§8 C09","snapshot of a missing group / rollback onto a taken Nostr id are outside the contract"),
 "C10":("exploration","three-way differential over seeded operation sequences: memory backend vs SQLite backend (with reopen) vs executable reference model of the storage contract, canonical results compared per call","§8 C10","inputs within both backends' validation limits; unordered results compared as sets"),
 "C18":("exploration","message-heavy world runs with forced timestamp ties: after every step default order == documented total order and last-message pointer == first non-invalidated message; periodically both sort modes, page concatenation for sizes 1/2/3/7, limit bounds, offsets beyond the end; storage-level ordering is part of C10","§8 C18","'not invalidated' = state other than epoch_invalidated"),
 "C12":("fault_enumeration","per sampled API call of every operation kind in seeded SQLite histories the storage tick indices are enumerated (quick: first, last + 6 sampled; thorough: every k): re-execution to the call, process death at tick k with a directory image (hot journal included), reopen, repeat the call, run the rest + quiescence, compare with the uninterrupted run; explicit snapshot/restore/relay transactions are checked all-or-nothing","§8 C12","process death, not power loss; one crash per execution; histories and calls are sampled, tick positions are enumerated"),
}
checks=[]
for pid,(cat,text,ref,note) in CLAIMED.items():
    checks.append({"property_id":pid,"quick_cmd":f"./check {pid} --tier quick","thorough_cmd":f"./check {pid} --tier thorough","evidence_file":f"/verif/evidence/{pid}.json","replay_cmd_template":f"./check {pid} --replay {{path}}","engine":"mdk-sim",
      "level_claimed":{"category":cat,"text":text,"design_ref":"DESIGN.md "+ref},"level_note":note,"technique":TECH+" (seeded schedule/fault search, reference-model oracles, replayable minimised traces)"})
NA={"C15":"pure function of one input value (codec round-trip / parser strictness): no schedule, clock, fault, crash point or history for a simulator to own; generating values would be input fuzzing in simulator vocabulary"}
na=[{"property_id":p['id'],"reason":NA.get(p['id'],"check not built yet (work in progress; will be claimed when its check lands)")} for p in props if p['id'] not in CLAIMED]
m={"version":1,
 "setup_cmd":"cd /verif && CARGO_NET_OFFLINE=true cargo build --release --offline",
 "hooks":{"guard":"cargo feature `verif-hooks` of crate mdk-sqlite-storage","enable":"/verif/sim/Cargo.toml depends on mdk-sqlite-storage with features=[\"verif-hooks\"]; ./check rebuilds from /repo's working tree","baseline_off_cmd":"cd /repo && cargo test --workspace --no-fail-fast --offline","source_commits":["453e557"],"add_only":True},
 "engines":[{"name":"mdk-sim","path":"/verif/sim","serves_properties":sorted(CLAIMED),"kind_free_text":"deterministic simulation of N real MDK clients (memory/SQLite/SQLCipher) under a seeded scheduler owning clock, entropy, delivery order, duplication, restarts and crashes"}],
 "checks":checks,"not_applicable":na,
 "notes":"known findings: /verif/known_findings.json (open entries print KNOWN-FINDING lines; fixed entries suppress nothing). Replays of fixed defects: /verif/findings/."}
json.dump(m,open('/verif/MANIFEST.json','w'),indent=1)
print("claimed",sorted(CLAIMED),"na",[x['property_id'] for x in na])
