#!/bin/sh
# usage: confirm_seeded.sh <ID> : in /tmp/wt-<ID> confirm (1) suite passes with the change, (2) demo fails with it, (3) demo passes without it
ID=$1; W=/tmp/wt-$ID; S=$W/SEEDED
export CARGO_TARGET_DIR=$W/target CARGO_NET_OFFLINE=true
cd $W || exit 2
DEMO_CMD=$(python3 -c "import json;print(json.load(open('$S/meta.json'))['demo_cmd'])")
git checkout -- . 2>/dev/null
[ -f $S/demo.diff ] && git apply $S/demo.diff 2>/dev/null
r3=$(sh -c "$DEMO_CMD" >/tmp/confirm-$ID-3.log 2>&1; echo $?)
git apply $S/patch.diff || { echo "patch failed"; exit 2; }
r2=$(sh -c "$DEMO_CMD" >/tmp/confirm-$ID-2.log 2>&1; echo $?)
# suite with the change only: demo moved aside (untracked files/dirs other than SEEDED and target), demo.diff reverted
[ -f $S/demo.diff ] && git apply -R $S/demo.diff 2>/dev/null
rm -rf /tmp/demo-aside-$ID; mkdir -p /tmp/demo-aside-$ID
git status --short | grep '^??' | awk '{print $2}' | grep -v '^SEEDED' | grep -v '^target' > /tmp/demo-aside-$ID/list
i=0; for f in $(cat /tmp/demo-aside-$ID/list); do i=$((i+1)); mv $f /tmp/demo-aside-$ID/item$i; done
r1=$(cargo test --workspace --offline >/tmp/confirm-$ID-1.log 2>&1; echo $?)
i=0; for f in $(cat /tmp/demo-aside-$ID/list); do i=$((i+1)); mv /tmp/demo-aside-$ID/item$i $f; done
git checkout -- .
echo "{\"suite_passes_with_change\": $([ $r1 = 0 ] && echo true || echo false), \"demo_fails_with_change\": $([ $r2 != 0 ] && echo true || echo false), \"demo_passes_without_change\": $([ $r3 = 0 ] && echo true || echo false)}" > $S/confirmed.json
echo $ID; cat $S/confirmed.json
