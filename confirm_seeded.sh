#!/bin/sh
# usage: confirm_seeded.sh <ID> : in /tmp/wt-<ID> confirm (1) suite passes with the change, (2) demo fails with it, (3) demo passes without it
ID=$1; W=/tmp/wt-$ID; S=$W/SEEDED
export CARGO_TARGET_DIR=$W/target CARGO_NET_OFFLINE=true
cd $W || exit 2
DEMO_CMD=$(python3 -c "import json;print(json.load(open('$S/meta.json'))['demo_cmd'])")
# make sure demo file is in place (agents left it or described where it goes)
git checkout -- . 2>/dev/null
r3=$(sh -c "$DEMO_CMD" >/tmp/confirm-$ID-3.log 2>&1; echo $?)
git apply $S/patch.diff || { echo "patch failed"; exit 2; }
r2=$(sh -c "$DEMO_CMD" >/tmp/confirm-$ID-2.log 2>&1; echo $?)
# suite with change, demo test moved aside
mkdir -p /tmp/demo-aside-$ID; for f in $(git status --short | grep '^??' | awk '{print $2}' | grep -v SEEDED | grep '\.rs$'); do mv $f /tmp/demo-aside-$ID/; echo $f >> /tmp/demo-aside-$ID/list; done
r1=$(cargo test --workspace --offline >/tmp/confirm-$ID-1.log 2>&1; echo $?)
# restore
if [ -f /tmp/demo-aside-$ID/list ]; then for f in $(cat /tmp/demo-aside-$ID/list); do mv /tmp/demo-aside-$ID/$(basename $f) $f; done; fi
git checkout -- .
echo "{\"suite_passes_with_change\": $([ $r1 = 0 ] && echo true || echo false), \"demo_fails_with_change\": $([ $r2 != 0 ] && echo true || echo false), \"demo_passes_without_change\": $([ $r3 = 0 ] && echo true || echo false)}" > $S/confirmed.json
cat $S/confirmed.json
